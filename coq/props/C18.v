(* C18 — Result blocks bind only to compatible targets; mismatches are errors.
   Nothing but statements closed by [exact], each followed by Print Assumptions.

   [zone] is time.LoadLocation and [tl] is strings.ToLower: arbitrary functions, universally quantified.
   model/Results.v: [bind_result] = Results.DecodeResult returning what every target holds afterwards, also after a
   failure; [bind_one] = one iteration of its loop; [infer_st] = the Inferable hook of a column (ColEnum, ColDateTime,
   ColDateTime64, ColInterval, ColArr, ColMap, ColTuple, ColNamed), [infer_tcol] the same for a target that may be a
   ColAuto; [conflicts_b] = ColumnType.Conflicts; [decode_block_st] / [run_blocks] = Block.DecodeBlock on one block /
   on the blocks of a query against the same Results.  [bound] (proofs/ResultsProofs.v) is the specification of a
   successful bind: column by column, the header names the target's name (or the target's is blank), the target's
   Infer accepts the type, its Type() afterwards does not conflict, and the bytes directly behind that header decode
   into it. *)
From CH Require Import model.Columns model.Block model.TypeStr model.DecPart model.Results.
From CH Require Import proofs.ColumnsProofs proofs.BlockProofs proofs.TypeStrProofs proofs.ResultsProofs proofs.ResultsProofs2.
Open Scope N_scope.
Open Scope list_scope.

(* the model is the block model of C01: on typed targets Results.DecodeResult of model/Block.v (which returns the
   targets on success only) and of model/Results.v agree in outcome, targets, unread input and error *)
Theorem block_model_refined : forall zone tl b v ncols nrows c cs s,
  proj (bind_result zone tl b v ncols nrows (map typed_target (c :: cs)) s) =
  decode_result conflicts_b (infer_target zone tl) b v ncols nrows (c :: cs) s.
Proof. exact bind_result_refines. Qed.
Print Assumptions block_model_refined.

(* success only if: the column count is the number of targets (or there are no targets and no columns-with-rows),
   and [bound] holds — names equal or blank, Infer accepted, no type conflict after Infer, own bytes decoded *)
Theorem bind_ok_only_if_compatible : forall zone tl b v ncols nrows ts s ts' rest,
  bind_result zone tl b v ncols nrows ts s = (ts', BOk rest) ->
  (ts = [] /\ ts' = [] /\ (ncols = 0 \/ nrows = 0)) \/
  (ts <> [] /\ ncols = N.of_nat (length ts) /\ bound zone tl b v nrows ts s ts' rest).
Proof. exact bind_result_ok. Qed.
Print Assumptions bind_ok_only_if_compatible.

(* ... and whenever that holds the bind succeeds with exactly those targets *)
Theorem bind_ok_if_compatible : forall zone tl b v nrows ts s ts' rest,
  ts <> [] -> bound zone tl b v nrows ts s ts' rest ->
  bind_result zone tl b v (N.of_nat (length ts)) nrows ts s = (ts', BOk rest).
Proof. exact bind_result_ok_intro. Qed.
Print Assumptions bind_ok_if_compatible.

(* what [bound] gives target by target: every name was blank or is the column's; no Type() conflicts with the
   server's type; callers' names are enforced *)
Theorem bound_names_blank_or_equal : forall zone tl b v nrows ts s ts' rest, bound zone tl b v nrows ts s ts' rest ->
  Forall2 (fun t t' => rt_name t = [] \/ rt_name t = rt_name t') ts ts'.
Proof. exact bound_names. Qed.
Print Assumptions bound_names_blank_or_equal.

Theorem bound_types_compatible : forall zone tl b v nrows ts s ts' rest, bound zone tl b v nrows ts s ts' rest ->
  Forall (fun t' => exists tstr, conflicts_b tstr (tcol_type (rt_col t')) = false) ts'.
Proof. exact bound_types. Qed.
Print Assumptions bound_types_compatible.

Theorem names_enforced : forall zone tl b v nrows ts s ts' rest, bound zone tl b v nrows ts s ts' rest ->
  Forall (fun t => rt_name t <> []) ts -> map rt_name ts' = map rt_name ts.
Proof. exact bound_names_enforced. Qed.
Print Assumptions names_enforced.

(* then target i holds exactly column i's data: for every block the library encodes (any columns of C01's
   well-formed set, either build, any revision, any trailing bytes) and targets of the same types whose names
   are equal or blank, each target ends up with the name, type and contents of its own column *)
Theorem bind_holds_own_data : forall zone tl b b' v nrows cols ts bs rest,
  nrows <= max_rows -> Forall (col_ok (infer_target zone tl) nrows) cols -> Forall2 binds cols ts ->
  enc_cols b v nrows cols = Some bs ->
  bind_targets zone tl b' v nrows 0 (map typed_target ts) (bs ++ rest) = (map typed_target cols, BOk rest).
Proof. exact ResultsProofs.bind_holds_own_data. Qed.
Print Assumptions bind_holds_own_data.

(* otherwise the result is an error whose kind names the mismatch: a wrong column count touches nothing; else the
   targets before the failing one are bound to their own columns ([bound] on the prefix), the failing step is
   explained by [fail_reason], the targets behind it are untouched *)
Theorem bind_mismatch_error : forall zone tl b v ncols nrows ts s ts' j k e,
  bind_result zone tl b v ncols nrows ts s = (ts', BFail j k e) ->
  (k = FCount /\ ts' = ts /\ ncols <> N.of_nat (length ts) /\ (ts = [] -> nrows <> 0)) \/
  (ts = [] /\ ts' = [] /\ k <> FCount) \/
  (ts <> [] /\ ncols = N.of_nat (length ts) /\
   exists pre t post pre' t' s1,
     ts = pre ++ t :: post /\ ts' = pre' ++ t' :: post /\ j = length pre /\
     bound zone tl b v nrows pre s pre' s1 /\ bind_one zone tl b v nrows t s1 = (t', SFail k e) /\
     fail_reason zone tl b v nrows t s1 k e t').
Proof. exact bind_result_fail. Qed.
Print Assumptions bind_mismatch_error.

(* no target ever receives another column's bytes: the failing target's contents are what they were, or an empty
   (reset or newly created) column, or - after a DecodeState / DecodeColumn error - the half-decoded column of
   model/DecPart.v: what the decoder of the target's own type stores before it gives up when it is run on the bytes [s1]
   directly behind the target's OWN column header (restated by the C18x extension, which models that residue; before it
   the model held an empty column there and the comparison with the implementation skipped it) *)
Theorem failing_target_never_foreign_data : forall zone tl b v nrows t s t' k e,
  bind_one zone tl b v nrows t s = (t', SFail k e) ->
  tcol_data (rt_col t') = tcol_data (rt_col t) \/
  (exists ty', tcol_ty (rt_col t') = Some ty' /\ tcol_data (rt_col t') = Some (empty ty')) \/
  (exists ty' name tstr s1, read_header v s = inl (name, tstr, s1) /\ k = FDecode /\
     tcol_ty (rt_col t') = Some ty' /\ tcol_data (rt_col t') = Some (body_part b ty' nrows s1)).
Proof. exact failing_target_contents. Qed.
Print Assumptions failing_target_never_foreign_data.

(* the loop itself: success iff [bound] *)
Theorem bind_targets_spec : forall zone tl b v nrows ts i s ts' rest,
  bind_targets zone tl b v nrows i ts s = (ts', BOk rest) <-> bound zone tl b v nrows ts s ts' rest.
Proof. exact bind_ok_iff. Qed.
Print Assumptions bind_targets_spec.

(* blank names are filled from the first block that binds and enforced afterwards; more: whatever blocks arrive
   (well formed or not, binding or not, through Results or Results.Auto()), a target keeps its position and a name
   it has is the name it keeps *)
Theorem names_sticky : forall zone tl auto b v blocks ts,
  Forall (names_kept ts) (map bo_targets (run_blocks zone tl auto b v ts blocks)).
Proof. exact ResultsProofs.names_sticky. Qed.
Print Assumptions names_sticky.

Theorem names_sticky_one_block : forall zone tl auto b v ts s,
  names_kept ts (bo_targets (decode_block_st zone tl auto b v ts s)).
Proof. exact names_sticky_block. Qed.
Print Assumptions names_sticky_one_block.

(* after Infer an inferable target's parameters are the server's and only the server's:
   ColEnum — type string, width and value mapping are a function of the server's type alone (finding 18 repaired) *)
Theorem infer_adopts_enum : forall zone tl n1 w1 d1 n2 w2 d2 s t',
  infer_st zone tl (TEnum n1 w1 d1) s = (t', IOk) ->
  infer_st zone tl (TEnum n2 w2 d2) s = (t', IOk) /\ type_str t' = s /\
  exists ds, t' = TEnum s (if bytes_eqb (base s) T_Enum8 then 1 else 2)%nat ds /\
             enum_parse (split_byte 44 (elem s)) = Some ds.
Proof. exact infer_enum_adopts. Qed.
Print Assumptions infer_adopts_enum.

(* ColDateTime, ColDateTime64, ColInterval — the Type() afterwards does not depend on the zone, precision or scale
   the column had before *)
Theorem infer_adopts_datetime : forall zone tl name1 name2 w s t',
  fix_kind name1 w = fix_kind name2 w -> fix_kind name1 w <> FPlain ->
  infer_st zone tl (TFix name1 w) s = (t', IOk) -> infer_st zone tl (TFix name2 w) s = (t', IOk).
Proof. exact infer_fix_adopts. Qed.
Print Assumptions infer_adopts_datetime.

Theorem infer_adopts_interval : forall zone tl name w s t',
  fix_kind name w = FInterval -> infer_st zone tl (TFix name w) s = (t', IOk) -> t' = TFix s w.
Proof. exact infer_interval_adopts. Qed.
Print Assumptions infer_adopts_interval.

(* Infer never slices a type string out of range, for any column tree and any byte string *)
Theorem infer_never_panics : forall zone tl t s, snd (infer_st zone tl t s) <> ICrash.
Proof. exact infer_st_no_crash. Qed.
Print Assumptions infer_never_panics.

(* non-vacuity: a two-column block (Enum8, DateTime64 with a zone) encoded by the model binds to a blank-named
   ColEnum without parameters and a ColDateTime64 without precision — names filled, parameters adopted, old rows
   replaced by the columns' own; the same block against a renamed target, and against an Int16 target, is an error
   that leaves every target as it was; an Int8 target takes the enum's raw values *)
Local Open Scope string_scope.
Definition ex_zone (q : bytes) := if bytes_eqb q (s2b "UTC") then Some (s2b "UTC") else None.
Definition ex_cols : list Block.col :=
  [ {| c_name := s2b "a" ; c_ty := TEnum (s2b "Enum8('x' = 1, 'y' = 2)") 1 [(s2b "x", 1%Z); (s2b "y", 2%Z)] ;
       c_data := DEnum [s2b "y"; s2b "x"] [] |} ;
    {| c_name := s2b "b" ; c_ty := TFix (s2b "DateTime64(3, 'UTC')") 8 ; c_data := DFix [5; 7] |} ].
Definition ex_targets (n1 : string) (t1 : ty) : list rtarget :=
  [ {| rt_name := s2b n1 ; rt_col := CTyped t1 (DEnum [s2b "old"] []) |} ;
    {| rt_name := s2b "b" ; rt_col := CTyped (TFix (s2b "DateTime64") 8) (DFix [9]) |} ].
Definition ex_run (n1 : string) (t1 : ty) : option block_out :=
  option_map (decode_block_st ex_zone (fun x => x) false Safe 54460 (ex_targets n1 t1))
             (encode_block Unsafe 54460 blank_block_info 2 ex_cols).
Definition ex_view (o : option block_out) :=
  option_map (fun o => (bo_out o, map (fun t => (b2s (rt_name t), b2s (tcol_type (rt_col t)), tcol_data (rt_col t))) (bo_targets o))) o.
Example c18_nonvacuous :
  ex_view (ex_run "" (TEnum [] 2 [])) =
    Some (BOk [], [("a", "Enum8('x' = 1, 'y' = 2)", Some (DEnum [s2b "y"; s2b "x"] [2; 1]));
                   ("b", "DateTime64(3, 'UTC')", Some (DFix [5; 7]))]) /\
  ex_view (ex_run "zz" (TEnum [] 2 [])) =
    Some (BFail 0 FName EInvalid, [("zz", "", Some (DEnum [s2b "old"] [])); ("b", "DateTime64", Some (DFix [9]))]) /\
  ex_view (ex_run "a" (TFix (s2b "Int16") 2)) =
    Some (BFail 0 FType EInvalid, [("a", "Int16", Some (DEnum [s2b "old"] [])); ("b", "DateTime64", Some (DFix [9]))]) /\
  ex_view (ex_run "a" (TFix (s2b "Int8") 1)) =
    Some (BOk [], [("a", "Int8", Some (DFix [2; 1])); ("b", "DateTime64(3, 'UTC')", Some (DFix [5; 7]))]).
Proof. vm_compute. repeat split. Qed.


(* ======================================================================================================================
   C18x - adoption is independent of nesting; the state of a failing target.

   Which wrappers hand Infer on (read from /repo/proto, mirrored by [infer_st] / [inferable_ty]): ColArr, ColNullable and
   ColLowCardinality to their element with Elem() (the last two since the repair made for this extension: they had no Infer
   method and a DateTime64 / Enum below them silently kept its old precision / definitions); ColMap to keys and values with
   the two top-level arguments of Elem() (splitTypeArgs, since the second repair: the string used to be cut at its first
   comma); ColTuple to element i with argument i of Elem(), which must have as many top-level arguments as the tuple has
   elements, and ColNamed with what follows "<Name> " (since the C18y repair: both used to hand the WHOLE string on, so that
   a tuple with an adopting member rejected its own type); ColAuto hands a compatible type to the column it holds.

   [skel t] (proofs/ResultsProofs2.v) is the static shape of a target: the type tree with everything Infer can replace
   erased - zone, precision and scale of the DateTime / DateTime64 / Interval leaves and name, width and definitions of
   the Enum leaves; columns that are not Inferable are kept verbatim. *)

(* Array, Nullable and LowCardinality forward Infer to their element with the element's own type string *)
Theorem infer_forwarded_by_wrappers : forall zone tl k d s,
  infer_st zone tl (wrap_ty k d) s =
  if inferable_ty d then let '(d', o) := infer_st zone tl d (elem s) in (wrap_ty k d', o) else (wrap_ty k d, IOk).
Proof. exact infer_st_wrap. Qed.
Print Assumptions infer_forwarded_by_wrappers.

(* Map forwards to keys, then values, with the two top-level arguments of its element string *)
Theorem infer_forwarded_by_map : forall zone tl k v s,
  infer_st zone tl (TMap k v) s =
  match split_type_args (elem s) with
  | [kt; vt] =>
    let '(k', ok) := opt_infer zone tl k (trim_space kt) in
    match ok with
    | IOk => let '(v', ov) := opt_infer zone tl v (trim_space vt) in (TMap k' v', ov)
    | _ => (TMap k' v, ok)
    end
  | _ => (TMap k v, IErr)
  end.
Proof. exact infer_st_map. Qed.
Print Assumptions infer_forwarded_by_map.

(* Tuple forwards to its elements in order, element i with the i-th top-level argument of its element string, trimmed
   ([tup_infer]: the loop stops at the first failure and leaves the later elements untouched); when the number of
   arguments is not the number of elements the type cannot be adopted and nothing is touched; a tuple without an
   Inferable element ignores the string altogether (generalises the statement of the quirk this file carried before the
   repair: "every element gets the whole string") *)
Theorem infer_forwarded_by_tuple : forall zone tl ts s,
  infer_st zone tl (TTuple ts) s =
  if existsb inferable_ty ts then
    if negb (length (split_type_args (elem s)) =? length ts)%nat then (TTuple ts, IErr)
    else let '(ts', o) := tup_infer zone tl ts (split_type_args (elem s)) in (TTuple ts', o)
  else (TTuple ts, IOk).
Proof. exact infer_st_tuple. Qed.
Print Assumptions infer_forwarded_by_tuple.

Theorem tuple_loop_unfolds : forall zone tl t0 r a ar,
  tup_infer zone tl (t0 :: r) (a :: ar) =
  let '(t0', o) := opt_infer zone tl t0 (trim_space a) in
  match o with
  | IOk => let '(r', o') := tup_infer zone tl r ar in (t0' :: r', o')
  | _ => (t0' :: r, o)
  end.
Proof. reflexivity. Qed.
Print Assumptions tuple_loop_unfolds.

(* a named element takes what follows its own name and a blank; any other string is rejected *)
Theorem infer_forwarded_by_named : forall zone tl n d s,
  infer_st zone tl (TNamed n d) s =
  if inferable_ty d then
    match cut_prefix (n ++ [32]) s with
    | Some e => let '(d', o) := infer_st zone tl d e in (TNamed n d', o)
    | None => (TNamed n d, IErr)
    end
  else (TNamed n d, IOk).
Proof. exact infer_st_named. Qed.
Print Assumptions infer_forwarded_by_named.

(* Infer never changes the shape, whether it succeeds or fails half way *)
Theorem infer_keeps_shape : forall zone tl t s, skel (fst (infer_st zone tl t s)) = skel t.
Proof. exact infer_st_skel. Qed.
Print Assumptions infer_keeps_shape.

(* nesting independence, for every type tree: two targets of the same shape get the same outcome from Infer and, when it
   succeeds, end up as the same column - whatever parameters their leaves held before, at whatever depth *)
Theorem adoption_independent_of_nesting : forall zone tl t1 t2 s, skel t1 = skel t2 ->
  snd (infer_st zone tl t1 s) = snd (infer_st zone tl t2 s) /\
  (snd (infer_st zone tl t1 s) = IOk -> fst (infer_st zone tl t1 s) = fst (infer_st zone tl t2 s)).
Proof. exact infer_st_indep. Qed.
Print Assumptions adoption_independent_of_nesting.

Theorem adoption_function_of_shape_and_type : forall zone tl t1 t2 s t',
  skel t1 = skel t2 -> infer_st zone tl t1 s = (t', IOk) -> infer_st zone tl t2 s = (t', IOk).
Proof. exact infer_nesting_independent. Qed.
Print Assumptions adoption_function_of_shape_and_type.

(* a second bind re-adopts: after an earlier Infer with ANY string (accepted or rejected half way) the column answers a
   new type exactly as the column first built would - nothing of the earlier type survives *)
Theorem second_infer_readopts : forall zone tl t s1 s2 t2,
  infer_st zone tl (fst (infer_st zone tl t s1)) s2 = (t2, IOk) <-> infer_st zone tl t s2 = (t2, IOk).
Proof. exact second_infer_forgets_first. Qed.
Print Assumptions second_infer_readopts.

(* what is adopted: every leaf Infer reaches holds exactly the parameters spelled at its position in the server's type
   ([adopted]: Enum - the piece as its type, the width of its base, the definitions parsed from it; DateTime - the zone
   named there as time.LoadLocation reports it, or none; DateTime64 - precision and zone named there, or no zone;
   Interval - the piece itself), the position being found the way the wrappers split the string *)
Theorem infer_adopts_at_every_depth : forall zone tl t s t', infer_st zone tl t s = (t', IOk) -> adopted zone t' s.
Proof. exact infer_adopts. Qed.
Print Assumptions infer_adopts_at_every_depth.

(* typed targets keep their shape through every sequence of blocks - bound, rejected, truncated, altered *)
Theorem targets_keep_shape : forall zone tl auto b v blocks ts xs, ts <> [] -> shapes ts xs ->
  Forall (fun ts' => shapes ts' xs) (map bo_targets (run_blocks zone tl auto b v ts blocks)).
Proof. exact history_shapes. Qed.
Print Assumptions targets_keep_shape.

(* a successful bind does not depend on the parameters or the contents its targets held before *)
Theorem bind_independent_of_old_parameters : forall zone tl b v nrows ts1 ts2 i s ts' rest,
  Forall2 same_target ts1 ts2 ->
  bind_targets zone tl b v nrows i ts1 s = (ts', BOk rest) -> bind_targets zone tl b v nrows i ts2 s = (ts', BOk rest).
Proof. exact bind_targets_indep. Qed.
Print Assumptions bind_independent_of_old_parameters.

(* a block the library encodes binds exactly to every list of typed targets it [fits]: target i is a typed column of the
   shape of column i (any parameters, any contents - rows of an earlier block, the residue of a failed decode) and its
   name is blank or the column's *)
Theorem fitting_block_binds_exactly : forall zone tl b b' v nrows cols ts bs rest,
  nrows <= max_rows -> Forall (col_ok (infer_target zone tl) nrows) cols -> Forall2 fits cols ts ->
  enc_cols b v nrows cols = Some bs ->
  bind_result zone tl b' v (N.of_nat (length cols)) nrows ts (bs ++ rest) = (map typed_target cols, BOk rest).
Proof. exact fitting_block_binds. Qed.
Print Assumptions fitting_block_binds_exactly.

(* the reset-before-decode rule.  After a failed bind - the block [s0] may be anything and may have failed at any column
   for any reason, leaving that target half decoded - a well-formed block of the targets' shapes whose names meet the
   names the targets have NOW binds, and every target then holds exactly its own column: name, type, contents *)
Theorem failed_bind_then_bind_ok : forall zone tl auto b0 v0 ts s0 b b' v nrows cols bs rest,
  Forall2 (fun c t => typed_as (skel (c_ty c)) t) cols ts ->
  Forall2 (fun c t1 => rt_name t1 = [] \/ rt_name t1 = c_name c) cols (bo_targets (decode_block_st zone tl auto b0 v0 ts s0)) ->
  nrows <= max_rows -> Forall (col_ok (infer_target zone tl) nrows) cols -> enc_cols b v nrows cols = Some bs ->
  bind_result zone tl b' v (N.of_nat (length cols)) nrows (bo_targets (decode_block_st zone tl auto b0 v0 ts s0)) (bs ++ rest)
  = (map typed_target cols, BOk rest).
Proof. exact failed_bind_then_bind_ok_proof. Qed.
Print Assumptions failed_bind_then_bind_ok.

(* ... and so after any sequence of blocks against the same targets *)
Theorem after_any_history_bind_ok : forall zone tl auto b0 v0 blocks ts tsN b b' v nrows cols bs rest,
  Forall2 (fun c t => typed_as (skel (c_ty c)) t) cols ts -> ts <> [] ->
  In tsN (map bo_targets (run_blocks zone tl auto b0 v0 ts blocks)) ->
  Forall2 (fun c t1 => rt_name t1 = [] \/ rt_name t1 = c_name c) cols tsN ->
  nrows <= max_rows -> Forall (col_ok (infer_target zone tl) nrows) cols -> enc_cols b v nrows cols = Some bs ->
  bind_result zone tl b' v (N.of_nat (length cols)) nrows tsN (bs ++ rest) = (map typed_target cols, BOk rest).
Proof. exact after_history_bind_ok. Qed.
Print Assumptions after_any_history_bind_ok.

(* the residue of a failed decode (model/DecPart.v, one case per DecodeColumn of /repo/proto, both builds) for the flat
   column kinds: Rows() is at most the block's row count and Row(i) returns for every i below it *)
Theorem failing_target_flat_consistent : forall b t n s, flat t = true ->
  readableb t (dec_part b t n s) = true /\ rows t (dec_part b t n s) <= n.
Proof. exact residue_flat_proof. Qed.
Print Assumptions failing_target_flat_consistent.

(* ... which does NOT hold below a wrapper (finding, not repaired: the library leaves a half-decoded Nullable / Array /
   Map / Point / Tuple target with Rows() > 0 whose Row(i) panics); the general statement
     forall b t n s, readableb t (dec_part b t n s) = true
   is refuted by a Nullable(String) whose null map arrived and whose strings did not *)
Theorem failing_target_consistent_refuted :
  ~ (forall b t n s, readableb t (dec_part b t n s) = true).
Proof. exact residue_unreadable_in_general. Qed.
Print Assumptions failing_target_consistent_refuted.

(* non-vacuity of the extension.
   (1) Array(Map(String, Nullable(Array(Enum)))) [a nesting the model allows]: a target built with other definitions four
       levels down adopts the server's two-name Enum (a comma inside the Map's value type), a second type re-adopts and
       equals what a blank target gives.
   (2) a two-column block cut inside its second column: column 0 bound, column 1 half decoded (default build: all rows
       exist, what arrived is in place, the rest zero; pure-Go build: nothing), then the intact block binds exactly. *)
Local Open Scope string_scope.
Definition ex_enum (defs : list (string * Z)) (nm : string) : ty :=
  TEnum (s2b nm) 1 (map (fun d => (s2b (fst d), snd d)) defs).
Definition ex_nest (leaf : ty) : ty := TArr (TMap TStr (TNullable (TArr leaf))).
Example c18x_nested_adoption :
  let blank := ex_nest (TEnum [] 2 []) in
  let old := ex_nest (ex_enum [("x", 5%Z)] "Enum8('x' = 5)") in
  let s1 := s2b "Array(Map(String, Nullable(Array(Enum8('a' = 1, 'b' = 2)))))" in
  let s2 := s2b "Array(Map(String, Nullable(Array(Enum16('b' = 300)))))" in
  infer_st ex_zone (fun x => x) old s1 = (ex_nest (ex_enum [("a", 1%Z); ("b", 2%Z)] "Enum8('a' = 1, 'b' = 2)"), IOk) /\
  infer_st ex_zone (fun x => x) blank s1 = infer_st ex_zone (fun x => x) old s1 /\
  infer_st ex_zone (fun x => x) (fst (infer_st ex_zone (fun x => x) old s1)) s2
    = (ex_nest (TEnum (s2b "Enum16('b' = 300)") 2 [(s2b "b", 300%Z)]), IOk) /\
  infer_st ex_zone (fun x => x) (fst (infer_st ex_zone (fun x => x) old s1)) s2 = infer_st ex_zone (fun x => x) blank s2 /\
  skel old = skel blank.
Proof. vm_compute. repeat split. Qed.

Definition ex2_cols : list Block.col :=
  [ {| c_name := s2b "a" ; c_ty := TStr ; c_data := DBytes [s2b "p"; s2b "q"] |} ;
    {| c_name := s2b "b" ; c_ty := TFix (s2b "UInt32") 4 ; c_data := DFix [7; 258] |} ].
Definition ex2_targets : list rtarget :=
  [ {| rt_name := [] ; rt_col := CTyped TStr (DBytes [s2b "old"]) |} ;
    {| rt_name := s2b "b" ; rt_col := CTyped (TFix (s2b "UInt32") 4) (DFix [9; 9; 9]) |} ].
Definition ex2_run (bld : build) :=
  match encode_block Unsafe 54460 blank_block_info 2 ex2_cols with
  | Some bs =>
    let cut := firstn (length bs - 3) bs in
    let o1 := decode_block_st ex_zone (fun x => x) false bld 54460 ex2_targets cut in
    let o2 := decode_block_st ex_zone (fun x => x) false bld 54460 (bo_targets o1) bs in
    Some (ex_view (Some o1), ex_view (Some o2))
  | None => None
  end.
Example c18x_failed_then_ok :
  ex2_run Unsafe =
    Some (Some (BFail 1 FDecode EEof, [("a", "String", Some (DBytes [s2b "p"; s2b "q"])); ("b", "UInt32", Some (DFix [7; 2]))]),
          Some (BOk [], [("a", "String", Some (DBytes [s2b "p"; s2b "q"])); ("b", "UInt32", Some (DFix [7; 258]))])) /\
  ex2_run Safe =
    Some (Some (BFail 1 FDecode EEof, [("a", "String", Some (DBytes [s2b "p"; s2b "q"])); ("b", "UInt32", Some (DFix []))]),
          Some (BOk [], [("a", "String", Some (DBytes [s2b "p"; s2b "q"])); ("b", "UInt32", Some (DFix [7; 258]))])).
Proof. vm_compute. repeat split. Qed.

(* non-vacuity of the C18y repair: a tuple target built with other parameters adopts element by element - a named
   element with its name stripped, a nested tuple, commas inside the Enum's and the DateTime64's own parentheses -; a
   type with another number of elements, or another element name, is rejected and leaves the target as it was; a tuple
   without an adopting element ignores the string *)
Example c18y_tuple_adoption :
  let dt64 (p : string) := TFix (s2b p) 8 in
  let blank := TTuple [TStr; dt64 "DateTime64(9)"; TNamed (s2b "e") (TEnum [] 2 []); TTuple [TEnum [] 2 []; dt64 "DateTime64"]] in
  let s1 := s2b "Tuple(String, DateTime64(3, 'UTC'), e Enum8('a' = 1, 'b' = 2), Tuple(Enum16('z' = 300), DateTime64(6)))" in
  infer_st ex_zone (fun x => x) blank s1 =
    (TTuple [TStr; dt64 "DateTime64(3, 'UTC')"; TNamed (s2b "e") (ex_enum [("a", 1%Z); ("b", 2%Z)] "Enum8('a' = 1, 'b' = 2)");
             TTuple [TEnum (s2b "Enum16('z' = 300)") 2 [(s2b "z", 300%Z)]; dt64 "DateTime64(6)"]], IOk) /\
  type_str (fst (infer_st ex_zone (fun x => x) blank s1)) = s1 /\
  infer_st ex_zone (fun x => x) blank (s2b "Tuple(String, DateTime64(3))") = (blank, IErr) /\
  infer_st ex_zone (fun x => x) blank (s2b "Tuple(String, DateTime64(3), f Enum8('a' = 1), Tuple(Enum16('z' = 300), DateTime64(6)))")
    = (TTuple [TStr; dt64 "DateTime64(3)"; TNamed (s2b "e") (TEnum [] 2 []); TTuple [TEnum [] 2 []; dt64 "DateTime64"]], IErr) /\
  infer_st ex_zone (fun x => x) (TTuple [TStr; TFix (s2b "UInt8") 1]) (s2b "anything") = (TTuple [TStr; TFix (s2b "UInt8") 1], IOk).
Proof. vm_compute. repeat split. Qed.
