(* C05 — Compressed frames round-trip and any corrupted frame is rejected.
   Nothing but statements closed by [exact], each followed by Print Assumptions, and one
   non-vacuity Example.  The model is model/Compress.v (compress.Writer.Compress,
   compress.Reader.readBlock / Read as they are after the two repairs in /repo); the
   vocabulary (verified_frame, frames_in, collision, frame_ok, codec_rt, alter, ...) is
   defined in proofs/CompressProofs.v.

   H       : CityHash128 (any function; collisions are stated, not assumed away)
   comp    : the block compressors (lz4, lz4hc at a level, zstd) - may fail
   decomp  : the block decompressors selected by the method byte
   codec_rt comp decomp  :=  forall m p c, m <> MNone -> comp m p = Some c ->
                             decomp (method_enc m) c (blen p) = Some p
   is the single hypothesis on the codecs, and only frames_roundtrip uses it. *)
From CH Require Import model.Compress proofs.PrimProofs proofs.CompressProofs gen.Consts.
Open Scope N_scope.

(* the layout facts the Go code relies on silently, recomputed from the regenerated constants *)
Theorem layout_obligations :
  hRawSize = (checksumSize + 1)%nat /\ hDataSize = (hRawSize + 4)%nat /\ hMethod = checksumSize /\
  headerSize = 25%nat /\ N.of_nat headerSize = N.of_nat checksumSize + compressHeaderSize /\
  maxDataSize <= 2 ^ 32 /\ maxDataSize < 2 ^ 32 /\ maxBlockSize + compressHeaderSize < 2 ^ 32 /\
  encNone <> encLZ4 /\ encNone <> encZSTD /\ encLZ4 <> encZSTD /\ encLZ4HC = encLZ4 /\
  layout_ok = true.
Proof.
  exact (conj hRawSize_is (conj hDataSize_is (conj hMethod_is (conj headerSize_is (conj headerSize_sum
        (conj maxDataSize_le (conj maxDataSize_lt (conj maxBlockSize_lt
        (conj (proj1 enc_distinct) (conj (proj1 (proj2 enc_distinct)) (conj (proj1 (proj2 (proj2 enc_distinct)))
        (conj (proj2 (proj2 (proj2 enc_distinct))) layout_holds)))))))))))).
Qed.
Print Assumptions layout_obligations.

(* For every list of payloads, each written with its own method and level, whose frames are within the
   reader's limits, and every sequence of reads of sizes >= 1 over the concatenated
   frames: the only error ever returned is the clean end of stream; the bytes handed out are
   always a prefix of the concatenated payloads (so they do not depend on the read sizes);
   the end of stream is reported only after every payload byte was handed out; and
   |payloads| + |frames| + 1 reads always suffice. *)
Theorem frames_roundtrip : forall H comp decomp,
  codec_rt comp decomp ->
  forall (specs : list (method * list N)) (fs : list (list N)) (sizes : list N),
  Forall2 (frame_ok H comp) specs fs ->
  Forall (fun n => 1 <= n) sizes ->
  let outs := fst (run_reads H decomp sizes (cr_init (concat fs))) in
  only_eof outs /\
  (exists rest, data_of outs ++ rest = payloads specs) /\
  (has_err outs -> data_of outs = payloads specs) /\
  ((length (payloads specs) + length specs < length sizes)%nat ->
   has_err outs /\ data_of outs = payloads specs).
Proof. exact frames_roundtrip_thm. Qed.
Print Assumptions frames_roundtrip.

(* a frame the writer produced within the limits verifies and carries exactly its payload *)
Theorem written_frame_verifies : forall H comp decomp m p f,
  codec_rt comp decomp -> frame_ok H comp (m, p) f -> verified_frame H decomp f p.
Proof. exact written_frame_verified. Qed.
Print Assumptions written_frame_verifies.

(* A written frame of which either the checksum field or the bytes the checksum covers were
   altered (any number of bytes, same length; whatever follows in the stream) is accepted by
   readBlock only if CityHash128 has a second preimage of the original body's hash. *)
Theorem altered_frame_rejected : forall H comp decomp m p f f' more d u' al,
  compress_frame H comp m p = inr f ->
  wf_bytes f' -> length f' = length f -> f' <> f ->
  firstn 16 f' = firstn 16 f \/ skipn 16 f' = skipn 16 f ->
  read_block H decomp (f' ++ more) = (inr d, u', al) ->
  collision H (skipn 16 f).
Proof. exact altered_frame_rejected_thm. Qed.
Print Assumptions altered_frame_rejected.

(* ... and when the two length fields are intact the error is the corruption error carrying
   the hash actually computed and the reference stored in the frame, after consuming exactly
   the frame (so the frames behind it stay readable). *)
Theorem corrupt_error_when_lengths_intact : forall H comp decomp m p f f' more,
  compress_frame H comp m p = inr f ->
  blen p <= maxDataSize -> blen f <= 25 + maxBlockSize ->
  wf_bytes f' -> length f' = length f -> f' <> f ->
  firstn 16 f' = firstn 16 f \/ skipn 16 f' = skipn 16 f ->
  firstn 8 (skipn 17 f') = firstn 8 (skipn 17 f) ->
  collision H (skipn 16 f) \/
  read_block H decomp (f' ++ more) =
    (inl (CECorrupt (h128 H (skipn 16 f')) (ck_pair f') (blen f - 25) (blen p)), more, [blen p; blen f]).
Proof. exact corrupt_error_when_lengths_intact_thm. Qed.
Print Assumptions corrupt_error_when_lengths_intact.

(* every single-byte alteration at every offset of a written frame makes the read fail,
   modulo a CityHash128 collision *)
Theorem single_byte_alteration_rejected : forall H comp decomp m p f i v more n,
  compress_frame H comp m p = inr f ->
  (i < length f)%nat -> v <> nth i f 0 -> wf_bytes (alter i v f) ->
  collision H (skipn 16 f) \/
  exists e s', cr_read H decomp n (cr_init (alter i v f ++ more)) = (RErr e, s').
Proof. exact single_byte_alteration_rejected_thm. Qed.
Print Assumptions single_byte_alteration_rejected.

(* ... with the corruption error (both checksums) at every offset outside the two length fields *)
Theorem single_byte_corrupt_error : forall H comp decomp m p f i v more n,
  compress_frame H comp m p = inr f ->
  blen p <= maxDataSize -> blen f <= 25 + maxBlockSize ->
  (i < length f)%nat -> (i < 17 \/ 25 <= i)%nat -> v <> nth i f 0 -> wf_bytes (alter i v f) ->
  collision H (skipn 16 f) \/
  exists s', cr_read H decomp n (cr_init (alter i v f ++ more)) =
    (RErr (CECorrupt (h128 H (skipn 16 (alter i v f))) (ck_pair (alter i v f)) (blen f - 25) (blen p)), s')
    /\ cr_under s' = more /\ cr_data s' = [].
Proof. exact single_byte_corrupt_error_thm. Qed.
Print Assumptions single_byte_corrupt_error.

(* a size field above its cap is answered with the limit error before anything is allocated
   (for every stream); no allocation request readBlock ever makes exceeds the caps; and over
   every history of reads of every stream the largest request stays within them *)
Theorem limits_before_alloc : forall H decomp,
  (forall u : list N, (headerSize <= length u)%nat ->
     maxDataSize < le_get (firstn 4 (skipn hDataSize u)) ->
     read_block H decomp u = (inl CEDataSize, skipn headerSize u, [])) /\
  (forall u : list N, (headerSize <= length u)%nat ->
     le_get (firstn 4 (skipn hDataSize u)) <= maxDataSize ->
     le_get (firstn 4 (skipn hRawSize u)) < compressHeaderSize \/
     maxBlockSize + compressHeaderSize < le_get (firstn 4 (skipn hRawSize u)) ->
     read_block H decomp u = (inl CERawSize, skipn headerSize u, [])) /\
  (forall u r u' al, read_block H decomp u = (r, u', al) ->
     al = [] \/ exists ds rs, al = [ds; N.of_nat headerSize + rs] /\ ds <= maxDataSize /\ rs <= maxBlockSize) /\
  (forall u sizes, cr_peak (snd (run_reads H decomp sizes (cr_init u))) <=
                   N.max maxDataSize (N.of_nat headerSize + maxBlockSize)).
Proof. exact (fun H decomp => limits_before_alloc_thm H (fun _ _ => None) decomp). Qed.
Print Assumptions limits_before_alloc.

(* For EVERY stream (any bytes at all) and EVERY sequence of reads of any sizes - reads that
   follow any number of failures included - the bytes handed out so far, followed by what is
   still buffered, are exactly the payloads of verified frames lying one after another in the
   part of the stream consumed so far: every byte handed out belongs to a frame whose checksum
   verified, and is handed out once, in order. *)
Theorem reader_history_inv : forall H decomp (u sizes : list N),
  let '(outs, s') := run_reads H decomp sizes (cr_init u) in
  exists consumed ps, u = consumed ++ cr_under s' /\
    frames_in H decomp consumed ps /\
    data_of outs ++ pending s' = concat ps.
Proof. exact (fun H decomp => reader_history_inv_thm H (fun _ _ => None) decomp). Qed.
Print Assumptions reader_history_inv.

(* a failed read leaves nothing buffered (the repair of the stale-buffer defect) *)
Theorem failed_read_drops_buffer : forall H decomp n s e s',
  cr_read H decomp n s = (RErr e, s') -> cr_data s' = [] /\ cr_pos s' = 0 /\ pending s' = [].
Proof. exact failed_read_drops_buffer_thm. Qed.
Print Assumptions failed_read_drops_buffer.

(* what "the codec named by the method byte yields p" means inside verified_frame *)
Theorem verified_payload_meaning : forall decomp mb payload rs ds p,
  decode_payload decomp mb payload rs ds = inr p <->
  ((mb = encLZ4 \/ mb = encZSTD) /\ decomp mb payload ds = Some p /\ blen p = ds) \/
  (mb = encNone /\ rs = ds /\ p = payload).
Proof. exact decode_payload_inr. Qed.
Print Assumptions verified_payload_meaning.

(* every proper prefix of a written frame (any method) makes the first read fail; within the
   reader's limits with an end-of-input error, the input consumed whole.  Cited by C07. *)
Theorem prefix_rejected_compressed : forall H comp decomp m p f k n,
  compress_frame H comp m p = inr f -> (k < length f)%nat ->
  exists e s', cr_read H decomp n (cr_init (firstn k f)) = (RErr e, s') /\
    (blen p <= maxDataSize -> blen f <= 25 + maxBlockSize -> eof_class e /\ cr_under s' = []).
Proof. exact prefix_rejected_compressed_thm. Qed.
Print Assumptions prefix_rejected_compressed.

(* Non-vacuity: a concrete hash and codec satisfy codec_rt; two written frames (LZ4, None) are
   within the limits; reading them 2 bytes at a time yields the payloads then the clean end of
   stream; with one byte of the first frame altered the first read fails with the corruption
   error, the second frame is still delivered, then the clean end of stream. *)
Example c05_nonvacuous :
  let H := fun b : list N => (fold_left N.add b 7, fold_left (fun a x => 31 * a + x) b 1) in
  let comp := fun (m : method) (p : list N) => Some (rev p) in
  let decomp := fun (mb : N) (c : list N) (ds : N) => Some (rev c) in
  let cls := map (fun r => match r with
                           | ROk b => inl b
                           | RErr (CECorrupt _ _ rs ds) => inr (1, rs, ds)
                           | RErr (CEHeader true) => inr (2, 0, 0)
                           | RErr _ => inr (3, 0, 0)
                           end) in
  match compress_frame H comp MLZ4 [1; 2; 3], compress_frame H comp MNone [4; 5] with
  | inr f1, inr f2 =>
    ((blen f1 <=? 25 + maxBlockSize) && (blen f2 <=? 25 + maxBlockSize),
     cls (fst (run_reads H decomp [2; 2; 2; 2; 2] (cr_init (f1 ++ f2)))),
     cls (fst (run_reads H decomp [5; 5; 5] (cr_init (alter 26 9 f1 ++ f2)))))
    = (true,
       [inl [1; 2]; inl [3]; inl [4; 5]; inr (2, 0, 0); inr (2, 0, 0)],
       [inr (1, 3, 3); inl [4; 5]; inr (2, 0, 0)])
  | _, _ => False
  end.
Proof. vm_compute. reflexivity. Qed.
