(* C07 — A truncated block or message is never accepted. *)
From CH Require Import model.Columns model.Messages model.Compress proofs.PrimProofs proofs.FieldsProofs proofs.MessagesProofs
  proofs.ColumnsProofs proofs.ColumnsProofs2 proofs.CompressProofs.
From CH Require Import gen.Features gen.Consts.
Open Scope N_scope.
Open Scope list_scope.

(* the general fact: a decoder that never looks past what it consumes and consumes an encoding
   exactly rejects every proper prefix of it *)
Theorem prefix_rejected : forall {A} (p : parser A) (enc : bytes) (a : A),
  mono p -> p enc = Ok a [] -> forall k, (k < length enc)%nat -> is_ok (p (firstn k enc)) = false.
Proof. exact @prefix_rejected_firstn. Qed.
Print Assumptions prefix_rejected.

(* every column decoder is such a decoder, for every type tree *)
Theorem column_decoder_monotone : forall b t n, mono (dec_column b t n).
Proof. exact mono_dec_column. Qed.
Print Assumptions column_decoder_monotone.

(* hence: every proper prefix of a column's state + data is rejected, for every type, contents and cut *)
Theorem column_prefix_rejected : forall t b b' n d,
  wf_ty t = true -> n <= max_rows -> wfd t n d -> rows t d = n ->
  forall k, (k < length (enc_column b t d))%nat ->
  is_ok (dec_column b' t n (firstn k (enc_column b t d))) = false.
Proof. exact ColumnsProofs2.column_prefix_rejected. Qed.
Print Assumptions column_prefix_rejected.

(* protocol messages: every layout message at every revision *)
Theorem message_prefix_rejected : forall v l xs,
  fields_typed l xs = true ->
  forall k, (k < length (encode_fields v l xs))%nat ->
  is_ok (decode_fields v l (firstn k (encode_fields v l xs))) = false.
Proof.
  intros v l xs H k Hk.
  apply (prefix_rejected_firstn (decode_fields v l) (encode_fields v l xs) (project v l xs)).
  - apply mono_decode_fields.
  - rewrite <- (app_nil_r (encode_fields v l xs)). now apply fields_roundtrip.
  - exact Hk.
Qed.
Print Assumptions message_prefix_rejected.

Theorem query_prefix_rejected : forall v q,
  query_ok q = true -> gate v FeatureSettingsSerializedAsStrings = true ->
  forall k, (k < length (tl (encode_Query v q)))%nat ->
  is_ok (decode_Query v (firstn k (tl (encode_Query v q)))) = false.
Proof.
  intros v q Hq Hv k Hk.
  destruct (Query_rt v q [] Hq Hv) as [b [Hb Hdec]]. rewrite Hb in *. cbn [tl] in *.
  rewrite app_nil_r in Hdec.
  apply (prefix_rejected_firstn (decode_Query v) b (project_Query v q)); [apply mono_decode_Query|exact Hdec|exact Hk].
Qed.
Print Assumptions query_prefix_rejected.

Theorem blockinfo_prefix_rejected : forall i0 i,
  in_i32 (bi_bucket i) ->
  forall k, (k < length (encode_BlockInfo i))%nat ->
  is_ok (decode_BlockInfo i0 (firstn k (encode_BlockInfo i))) = false.
Proof.
  intros i0 i Hi k Hk.
  apply (prefix_rejected_firstn (decode_BlockInfo i0) (encode_BlockInfo i) i).
  - apply mono_decode_BlockInfo.
  - rewrite <- (app_nil_r (encode_BlockInfo i)). now apply BlockInfo_rt.
  - exact Hk.
Qed.
Print Assumptions blockinfo_prefix_rejected.

Theorem blockheader_prefix_rejected : forall v i cols rows,
  in_i32 (bi_bucket i) -> (0 <= cols <= maxColumnsInBlock)%Z -> (0 <= rows <= maxRowsInBLock)%Z ->
  forall k, (k < length (encode_BlockHeader v i cols rows))%nat ->
  is_ok (decode_BlockHeader v (firstn k (encode_BlockHeader v i cols rows))) = false.
Proof.
  intros v i cols rows Hi Hc Hr k Hk.
  eapply (prefix_rejected_firstn (decode_BlockHeader v) (encode_BlockHeader v i cols rows)).
  - apply mono_decode_BlockHeader.
  - rewrite <- (app_nil_r (encode_BlockHeader v i cols rows)). now apply BlockHeader_rt.
  - exact Hk.
Qed.
Print Assumptions blockheader_prefix_rejected.

(* compressed streams: every proper prefix of a written frame (any method) makes the first read fail *)
Theorem compressed_prefix_rejected : forall H comp decomp m p f k n,
  compress_frame H comp m p = inr f -> (k < length f)%nat ->
  exists e s', cr_read H decomp n (cr_init (firstn k f)) = (RErr e, s') /\
    (blen p <= maxDataSize -> blen f <= 25 + maxBlockSize -> eof_class e /\ cr_under s' = []).
Proof. exact prefix_rejected_compressed_thm. Qed.
Print Assumptions compressed_prefix_rejected.

(* non-vacuity: a LowCardinality(String) column with three rows: every one of its prefixes is rejected *)
Example c07_nonvacuous :
  let t := TLowCard TStr in
  exists d, prepare t (DLowCard [VB [97]; VB [98]; VB [97]] (DBytes []) 0 []) = Some d /\
    (0 < length (enc_column Safe t d))%nat /\
    forallb (fun k => negb (is_ok (dec_column Unsafe t 3 (firstn k (enc_column Safe t d)))))
            (seq 0 (length (enc_column Safe t d))) = true.
Proof. eexists. split; [vm_compute; reflexivity|]. split; vm_compute; [lia|reflexivity]. Qed.
