(* C07 — A truncated block or message is never accepted. *)
From CH Require Import model.Columns model.Messages model.Compress proofs.PrimProofs proofs.FieldsProofs proofs.MessagesProofs
  proofs.ColumnsProofs proofs.ColumnsProofs2 proofs.CompressProofs.
From CH Require Import gen.Features gen.Consts.
Open Scope N_scope.
Open Scope list_scope.

(* the general fact: a decoder that never looks past what it consumes and consumes an encoding
   exactly rejects every proper prefix of it *)
Theorem prefix_rejected : forall {A} (p : parser A) (enc : bytes) (a : A),
  mono p -> p enc = Ok a [] -> forall k, (k < length enc)%nat -> is_ok (p (firstn k enc)) = false.
Proof. exact @prefix_rejected_firstn. Qed.
Print Assumptions prefix_rejected.

(* every column decoder is such a decoder, for every type tree *)
Theorem column_decoder_monotone : forall b t n, mono (dec_column b t n).
Proof. exact mono_dec_column. Qed.
Print Assumptions column_decoder_monotone.

(* hence: every proper prefix of a column's state + data is rejected, for every type, contents and cut *)
Theorem column_prefix_rejected : forall t b b' n d,
  wf_ty t = true -> n <= max_rows -> wfd t n d -> rows t d = n ->
  forall k, (k < length (enc_column b t d))%nat ->
  is_ok (dec_column b' t n (firstn k (enc_column b t d))) = false.
Proof. exact ColumnsProofs2.column_prefix_rejected. Qed.
Print Assumptions column_prefix_rejected.

(* protocol messages: every layout message at every revision *)
Theorem message_prefix_rejected : forall v l xs,
  fields_typed l xs = true ->
  forall k, (k < length (encode_fields v l xs))%nat ->
  is_ok (decode_fields v l (firstn k (encode_fields v l xs))) = false.
Proof.
  intros v l xs H k Hk.
  apply (prefix_rejected_firstn (decode_fields v l) (encode_fields v l xs) (project v l xs)).
  - apply mono_decode_fields.
  - rewrite <- (app_nil_r (encode_fields v l xs)). now apply fields_roundtrip.
  - exact Hk.
Qed.
Print Assumptions message_prefix_rejected.

Theorem query_prefix_rejected : forall v q,
  query_ok q = true -> gate v FeatureSettingsSerializedAsStrings = true ->
  forall k, (k < length (tl (encode_Query v q)))%nat ->
  is_ok (decode_Query v (firstn k (tl (encode_Query v q)))) = false.
Proof.
  intros v q Hq Hv k Hk.
  destruct (Query_rt v q [] Hq Hv) as [b [Hb Hdec]]. rewrite Hb in *. cbn [tl] in *.
  rewrite app_nil_r in Hdec.
  apply (prefix_rejected_firstn (decode_Query v) b (project_Query v q)); [apply mono_decode_Query|exact Hdec|exact Hk].
Qed.
Print Assumptions query_prefix_rejected.

Theorem blockinfo_prefix_rejected : forall i0 i,
  in_i32 (bi_bucket i) ->
  forall k, (k < length (encode_BlockInfo i))%nat ->
  is_ok (decode_BlockInfo i0 (firstn k (encode_BlockInfo i))) = false.
Proof.
  intros i0 i Hi k Hk.
  apply (prefix_rejected_firstn (decode_BlockInfo i0) (encode_BlockInfo i) i).
  - apply mono_decode_BlockInfo.
  - rewrite <- (app_nil_r (encode_BlockInfo i)). now apply BlockInfo_rt.
  - exact Hk.
Qed.
Print Assumptions blockinfo_prefix_rejected.

Theorem blockheader_prefix_rejected : forall v i cols rows,
  in_i32 (bi_bucket i) -> (0 <= cols <= maxColumnsInBlock)%Z -> (0 <= rows <= maxRowsInBLock)%Z ->
  forall k, (k < length (encode_BlockHeader v i cols rows))%nat ->
  is_ok (decode_BlockHeader v (firstn k (encode_BlockHeader v i cols rows))) = false.
Proof.
  intros v i cols rows Hi Hc Hr k Hk.
  eapply (prefix_rejected_firstn (decode_BlockHeader v) (encode_BlockHeader v i cols rows)).
  - apply mono_decode_BlockHeader.
  - rewrite <- (app_nil_r (encode_BlockHeader v i cols rows)). now apply BlockHeader_rt.
  - exact Hk.
Qed.
Print Assumptions blockheader_prefix_rejected.

(* compressed streams: every proper prefix of a written frame (any method) makes the first read fail *)
Theorem compressed_prefix_rejected : forall H comp decomp m p f k n,
  compress_frame H comp m p = inr f -> (k < length f)%nat ->
  exists e s', cr_read H decomp n (cr_init (firstn k f)) = (RErr e, s') /\
    (blen p <= maxDataSize -> blen f <= 25 + maxBlockSize -> eof_class e /\ cr_under s' = []).
Proof. exact prefix_rejected_compressed_thm. Qed.
Print Assumptions compressed_prefix_rejected.

(* non-vacuity: a LowCardinality(String) column with three rows: every one of its prefixes is rejected *)
Example c07_nonvacuous :
  let t := TLowCard TStr in
  exists d, prepare t (DLowCard [VB [97]; VB [98]; VB [97]] (DBytes []) 0 []) = Some d /\
    (0 < length (enc_column Safe t d))%nat /\
    forallb (fun k => negb (is_ok (dec_column Unsafe t 3 (firstn k (enc_column Safe t d)))))
            (seq 0 (length (enc_column Safe t d))) = true.
Proof. eexists. split; [vm_compute; reflexivity|]. split; vm_compute; [lia|reflexivity]. Qed.

(* ======================================================================================================
   Block and stream level (extension C07x; proofs in proofs/BlockPrefixProofs.v, proofs/ClientPrefixProofs.v)

   Vocabulary (model/Block.v, model/Recv.v, proofs/RecvProofs.v, proofs/RecvProofs2.v):
     encode_block b v info nrows cols   Block.EncodeBlock at revision v in build b (None: the encoder's error);
     decode_block auto b' v ts          Block.DecodeBlock in build b' into proto.Results ts (auto = false; ts = []:
                                        an empty Results, headers are skipped) or into (&ts).Auto() (auto = true);
     block_parser c tg                  the same as Do's receiver calls it, tg = TgNil being q.Result == nil;
     col_ok nrows c c'                  c is a column of nrows rows of a well-formed type whose Prepare succeeds,
                                        c' is c prepared (what a target holds after decoding);
     fits tg nrows cols                 the block matches the binding: every typed target's own Infer accepts the
                                        column's type string and its name is equal or blank; for Auto, ColAuto.Infer
                                        knows the type strings ([infer_auto (type_str t) = Some t]); without targets
                                        the block has no rows or no columns (DecodeBlock's own rule);
     conflicts / infer_target / infer_auto   ColumnType.Conflicts, Inferable.Infer, ColAuto.Infer: ANY functions with
                                        [conflicts s s = false] (instances: model/Results.v, C18/C19);
     frames_of H comp body payload      payload = the frames of ANY list (method, piece) with the pieces concatenating
                                        to body, the last piece not empty, every frame within compress.Reader's limits;
     via H decomp c true p []           decodeBlock's decompressing path: parser p over compress.Reader ([read_comp]);
                                        [Err ECorrupt] is the model's "read next block: <any readBlock error>".
   Zero rows / zero columns, exactly: for nrows = 0 nothing is written for a column but its header (name, type,
   custom-serialization flag; no state prefix, no data: [zero_row_block_is_headers_only]), and the block
   (columns = 0, rows = 0) is the end-of-data marker, decoded without looking at the targets
   ([end_block_prefix_rejected] needs no premise on them).  Both are blocks like any other for the theorems below:
   every proper prefix is rejected.  What is NOT claimed: that a complete block followed by a cut second block is
   rejected as a whole - the first block is decoded and delivered, the cut one is the error (Part 3).
   ====================================================================================================== *)
From CH Require Import model.Block model.Recv proofs.RecvProofs proofs.ParserStable proofs.RecvProofs2 proofs.BlockPrefixProofs.

(* 1. every proper prefix of an encoded block is rejected: typed targets, Results.Auto, no targets; every revision;
      encoder's build b and decoder's build b' independent; every cut k *)
Theorem block_prefix_rejected : forall conflicts infer_target infer_auto,
  (forall s, conflicts s s = false) ->
  forall auto b b' v ts info nrows cols cols' body,
  in_i32 (bi_bucket info) -> nrows <= max_rows -> (Z.of_nat (length cols) <= maxColumnsInBlock)%Z ->
  Forall2 (RecvProofs.col_ok nrows) cols cols' ->
  (is_end_marker nrows cols = false -> RecvProofs.fits infer_target infer_auto (tg_of auto ts) nrows cols) ->
  encode_block b v info nrows cols = Some body ->
  forall k, (k < length body)%nat ->
    is_ok (decode_block conflicts infer_target infer_auto auto b' v ts (firstn k body)) = false.
Proof. exact block_prefix_rejected_thm. Qed.
Print Assumptions block_prefix_rejected.

(* ... and for a block under the model's allocation budget (~25 GB) the answer is precisely "unexpected end of
   input": no other error class, no panic, no allocation beyond the cap *)
Theorem block_prefix_needs_more : forall conflicts infer_target infer_auto,
  (forall s, conflicts s s = false) ->
  forall auto b b' v ts info nrows cols cols' body,
  in_i32 (bi_bucket info) -> nrows <= max_rows -> (Z.of_nat (length cols) <= maxColumnsInBlock)%Z ->
  Forall2 (RecvProofs.col_ok nrows) cols cols' ->
  (is_end_marker nrows cols = false -> RecvProofs.fits infer_target infer_auto (tg_of auto ts) nrows cols) ->
  encode_block b v info nrows cols = Some body -> 2 * blen body + 4096 <= alloc_cap ->
  forall k, (k < length body)%nat ->
    decode_block conflicts infer_target infer_auto auto b' v ts (firstn k body) = Err EEof.
Proof. exact block_prefix_eof_thm. Qed.
Print Assumptions block_prefix_needs_more.

(* the same through the receiver's entry point, q.Result == nil included *)
Theorem block_parser_prefix_rejected : forall conflicts infer_target infer_auto,
  (forall s, conflicts s s = false) ->
  forall c tg info nrows cols cols' body,
  in_i32 (bi_bucket info) -> nrows <= max_rows -> (Z.of_nat (length cols) <= maxColumnsInBlock)%Z ->
  Forall2 (RecvProofs.col_ok nrows) cols cols' ->
  (is_end_marker nrows cols = false -> RecvProofs.fits infer_target infer_auto tg nrows cols) ->
  encode_block (c_build c) (c_rev c) info nrows cols = Some body ->
  forall k, (k < length body)%nat ->
    is_ok (block_parser conflicts infer_target infer_auto c tg (firstn k body)) = false.
Proof. exact block_parser_prefix_rejected_thm. Qed.
Print Assumptions block_parser_prefix_rejected.

(* the end-of-data block: any targets whatsoever *)
Theorem end_block_prefix_rejected : forall conflicts infer_target infer_auto,
  (forall s, conflicts s s = false) ->
  forall auto b b' v ts info body,
  in_i32 (bi_bucket info) -> encode_block b v info 0 [] = Some body ->
  forall k, (k < length body)%nat ->
    is_ok (decode_block conflicts infer_target infer_auto auto b' v ts (firstn k body)) = false.
Proof. exact end_block_prefix_rejected_thm. Qed.
Print Assumptions end_block_prefix_rejected.

(* a zero-row block is its header and the column headers, nothing else *)
Theorem zero_row_block_is_headers_only : forall b v info cols body,
  Forall (fun c => rows (c_ty c) (c_data c) = 0 /\
                   exists d, prepare (c_ty c) (c_data c) = Some d /\ rows (c_ty c) d = 0) cols ->
  encode_block b v info 0 cols = Some body ->
  body = (if gate v FeatureBlockInfo then encode_BlockInfo info else []) ++
         put_int (Z.of_nat (length cols)) ++ put_int 0 ++
         concat (map (fun c => enc_start v (c_name c) (c_ty c)) cols).
Proof. exact zero_row_block_bytes. Qed.
Print Assumptions zero_row_block_is_headers_only.

(* 2. compressed streams, any framing: ANY decoder that is monotone and stable (every decoder under
      Block.DecodeBlock is: ParserStable.v) run by the decompressing reader over ANY proper prefix of ANY admissible
      frame list for what it accepts - the cut inside a checksum, a frame header, compressed data, or exactly
      between two frames - fails *)
Theorem compressed_any_framing_prefix_rejected : forall H comp decomp, codec_rt comp decomp ->
  forall A c (p : parser A) a body payload,
  mono p -> stable p -> p body = Ok a [] -> c_comp c = true ->
  frames_of H comp body payload -> 2 * blen body + 4096 <= alloc_cap ->
  forall k, (k < length payload)%nat -> via H decomp c true p [] (firstn k payload) = Err ECorrupt.
Proof. exact (fun H comp decomp codec A => @via_frames_cut H comp decomp codec A). Qed.
Print Assumptions compressed_any_framing_prefix_rejected.

(* ... for the block decoder and a block accepted by encode_block *)
Theorem compressed_block_prefix_rejected : forall conflicts infer_target infer_auto H comp decomp,
  (forall s, conflicts s s = false) -> codec_rt comp decomp ->
  forall c auto b b' v ts info nrows cols cols' body payload,
  in_i32 (bi_bucket info) -> nrows <= max_rows -> (Z.of_nat (length cols) <= maxColumnsInBlock)%Z ->
  Forall2 (RecvProofs.col_ok nrows) cols cols' ->
  (is_end_marker nrows cols = false -> RecvProofs.fits infer_target infer_auto (tg_of auto ts) nrows cols) ->
  encode_block b v info nrows cols = Some body -> 2 * blen body + 4096 <= alloc_cap ->
  c_comp c = true -> frames_of H comp body payload ->
  forall k, (k < length payload)%nat ->
    via H decomp c true (decode_block conflicts infer_target infer_auto auto b' v ts) [] (firstn k payload)
    = Err ECorrupt.
Proof. exact compressed_block_cut_thm. Qed.
Print Assumptions compressed_block_prefix_rejected.

(* the cut exactly between two frames, spelled out: the frames before the cut (l1) arrived whole; the decoder has
   consumed all they carry and wants more; readBlock finds a clean end of input where the next frame header should
   be - and that is an error of the decode, not the end of the block *)
Theorem frame_boundary_cut_rejected : forall H comp decomp, codec_rt comp decomp ->
  forall A c (p : parser A) a (l1 l2 : list (method * bytes)) p1,
  mono p -> stable p -> c_comp c = true ->
  p (concat (map snd (l1 ++ l2))) = Ok a [] ->
  l2 <> [] -> last (map snd (l1 ++ l2)) [] <> [] ->
  encode_frames H comp l1 = Some p1 -> Forall (frame_fits H comp) l1 ->
  2 * blen (concat (map snd (l1 ++ l2))) + 4096 <= alloc_cap ->
  p (concat (map snd l1)) = Err EEof /\
  read_block H decomp [] = (inl (CEHeader true), [], []) /\
  via H decomp c true p [] p1 = Err ECorrupt.
Proof. exact (fun H comp decomp codec A => @frame_boundary_cut H comp decomp codec A). Qed.
Print Assumptions frame_boundary_cut_rejected.

(* 3. "never reports partial data as complete", at the receiver: the server stream consists of the complete
      packets ps (no terminating event among them; compressed blocks in any framing) followed by the first j bytes
      (any j below its length; 0 = the connection ends between packets) of a Data / Totals / Log / ProfileEvents
      packet that fits the binding left by ps.  Do's receiver returns a read failure - not nil, not an exception,
      not a callback's error - and the callbacks that ran are exactly those of ps: OnResult / OnLogs / OnLog /
      OnProfileEvents / OnProfileEvent did not run for the cut packet. *)
Theorem block_prefix_no_callback : forall conflicts infer_target infer_auto H comp decomp,
  (forall s, conflicts s s = false) -> codec_rt comp decomp ->
  forall c hs tg ps stream k info nrows cols bs,
  script_okF infer_target infer_auto c tg ps -> wire_script H comp c ps stream ->
  expected_outcome c hs tg ps = None ->
  packet_okF infer_target infer_auto c (s_tg (snd (spec_run c hs (sst_init tg) ps))) (PBlock k info nrows cols) ->
  wire_packet H comp c (PBlock k info nrows cols) bs ->
  forall j, (j < length bs)%nat ->
  exists e st r,
    recv conflicts infer_target infer_auto H decomp c hs tg (stream ++ firstn j bs) = (OErr e, st, r) /\
    read_failure (OErr e) /\ r_trace st = expected_trace c hs tg ps.
Proof. exact block_prefix_no_callback_thm. Qed.
Print Assumptions block_prefix_no_callback.

(* the same on one script ending in the block packet: every cut of the stream at or behind the start of its last
   packet gives a read failure with the trace of the packets before it *)
Theorem stream_cut_in_last_block_no_callback : forall conflicts infer_target infer_auto H comp decomp,
  (forall s, conflicts s s = false) -> codec_rt comp decomp ->
  forall c hs tg ps k info nrows cols full,
  script_okF infer_target infer_auto c tg (ps ++ [PBlock k info nrows cols]) ->
  wire_script H comp c (ps ++ [PBlock k info nrows cols]) full ->
  expected_outcome c hs tg ps = None ->
  exists n0, (n0 < length full)%nat /\ wire_script H comp c ps (firstn n0 full) /\
    forall j, (n0 <= j < length full)%nat ->
      exists e st r,
        recv conflicts infer_target infer_auto H decomp c hs tg (firstn j full) = (OErr e, st, r) /\
        read_failure (OErr e) /\ r_trace st = expected_trace c hs tg ps.
Proof. exact stream_cut_in_last_block_thm. Qed.
Print Assumptions stream_cut_in_last_block_no_callback.

(* non-vacuity, blocks: two columns, Array(String) = [["ab"], [], ["c","d"]] and LowCardinality(String) =
   ["x","y","x"] (a dictionary of two keys), at revision 54460.  The hypotheses of the theorems hold; the block is
   123 bytes; EVERY cut of it is rejected by typed targets (holding stale rows), by Results.Auto and in the other
   build; cut into three frames with method byte LZ4 (under a stand-in codec and hash), every cut of the 198-byte
   frame stream - inside checksums, headers, data and at both frame boundaries - is rejected; and in the receiver, after
   a complete header block, every cut of the Data packet carrying it gives an error with exactly the one earlier
   OnResult call in the trace. *)
Definition bx_conf (a b : bytes) : bool := negb (bytes_eqb a b).
Definition bx_inf (t : ty) (_ : bytes) : option ty := Some t.
Definition bx_auto (s : bytes) : option ty :=
  if bytes_eqb s (type_str (TArr TStr)) then Some (TArr TStr)
  else if bytes_eqb s (type_str (TLowCard TStr)) then Some (TLowCard TStr) else None.
Definition bx_H (b : bytes) : N * N := (fold_left N.add b 7, fold_left (fun a x => 31 * a + x) b 1).
Definition bx_comp (_ : method) (p : bytes) : option bytes := Some p.
Definition bx_decomp (_ : N) (p : bytes) (_ : N) : option bytes := Some p.
Definition bx_arr (offs : list N) (vs : list bytes) : col :=
  {| c_name := [97] ; c_ty := TArr TStr ; c_data := DArr offs (DBytes vs) |}.
Definition bx_lc (vs : list val) (keys : list N) (dict : list bytes) : col :=
  {| c_name := [98] ; c_ty := TLowCard TStr ; c_data := DLowCard vs (DBytes dict) 0 keys |}.
Definition bx_cols : list col := [bx_arr [1; 1; 3] [[97; 98]; [99]; [100]]; bx_lc [VB [120]; VB [121]; VB [120]] [] []].
(* the same columns after Prepare: the dictionary [x; y] with UInt8 keys [0; 1; 0] *)
Definition bx_cols' : list col :=
  [bx_arr [1; 1; 3] [[97; 98]; [99]; [100]]; bx_lc [VB [120]; VB [121]; VB [120]] [0; 1; 0] [[120]; [121]]].
Definition bx_info : block_info := {| bi_overflows := false ; bi_bucket := (-1)%Z |}.
Definition bx_stale : list col := [bx_arr [2] [[1]; [2]]; bx_lc [VB [7]] [] []].
Definition bx_cfg : cfg := {| c_rev := 54460 ; c_comp := true ; c_build := Unsafe |}.
Definition bx_hs : handlers :=
  {| on_result := Some (fun _ => true) ; on_progress := None ; on_profile := None ; on_pevents := None ;
     on_pevent := None ; on_logs := None ; on_log := None |}.

Example c07_block_nonvacuous :
  exists body,
    Forall2 (RecvProofs.col_ok 3) bx_cols bx_cols' /\
    RecvProofs.fits bx_inf bx_auto (tg_of false bx_stale) 3 bx_cols /\
    RecvProofs.fits bx_inf bx_auto (tg_of true []) 3 bx_cols /\
    encode_block Unsafe 54460 bx_info 3 bx_cols = Some body /\ length body = 123%nat /\
    decode_block bx_conf bx_inf bx_auto false Safe 54460 bx_stale body = Ok (bx_info, 2%Z, 3%Z, bx_cols') [] /\
    forallb (fun k => negb (is_ok (decode_block bx_conf bx_inf bx_auto false Safe 54460 bx_stale (firstn k body)))
                      && negb (is_ok (decode_block bx_conf bx_inf bx_auto true Unsafe 54460 [] (firstn k body)))
                      && negb (is_ok (decode_block bx_conf bx_inf bx_auto false Unsafe 54460 [] (firstn k body))))
            (seq 0 (length body)) = true /\
    (* three frames: cut after 5 bytes (inside the block info) and after 30 more (inside the Array column) *)
    exists payload,
      encode_frames bx_H bx_comp (cut_frames [(MLZ4, 5%nat); (MLZ4, 30%nat)] MLZ4 body) = Some payload /\
      length payload = 198%nat /\
      via bx_H bx_decomp bx_cfg true (decode_block bx_conf bx_inf bx_auto false Safe 54460 bx_stale) [] payload
        = Ok ((bx_info, 2%Z, 3%Z, bx_cols'), []) [] /\
      forallb (fun k => match via bx_H bx_decomp bx_cfg true
                                (decode_block bx_conf bx_inf bx_auto false Safe 54460 bx_stale) [] (firstn k payload) with
                        | Err ECorrupt => true | _ => false end)
              (seq 0 (length payload)) = true /\
      (* the receiver: a header block (delivered: one OnResult), then the Data packet with the three frames, cut *)
      exists stream, encode_packets_fr bx_H bx_comp bx_cfg
                       [PBlock BData bx_info 0 [bx_arr [] []; bx_lc [] [] []]] [([], MNone)] = Some stream /\
        let pkt := [1; 0] ++ payload in
        forallb (fun j => let '(o, st, _) := recv bx_conf bx_inf bx_auto bx_H bx_decomp bx_cfg bx_hs (TgAuto [])
                                               (stream ++ firstn j pkt) in
                          match o with OErr (RDecode _) => Nat.eqb (length (r_trace st)) 1 | _ => false end)
                (seq 0 (length pkt)) = true /\
        let '(o, st, _) := recv bx_conf bx_inf bx_auto bx_H bx_decomp bx_cfg bx_hs (TgAuto []) (stream ++ pkt ++ [5]) in
        o = ONil /\ length (r_trace st) = 2%nat.
Proof.
  eexists.
  split.
  { constructor; [|constructor; [|constructor]]; unfold RecvProofs.col_ok;
      cbn [c_name c_ty c_data bx_cols bx_cols' bx_arr bx_lc];
      (split; [reflexivity|]); (split; [reflexivity|]); (split; [reflexivity|]); (split; [vm_compute; reflexivity|]);
      (split; [vm_compute; reflexivity|]); (split; [vm_compute; reflexivity|]);
      (split; [|split; vm_compute; reflexivity]); cbn [wfd].
    - split; [reflexivity|]. split; [vm_compute; reflexivity|]. split; [vm_compute; discriminate|].
      split; [reflexivity|].
      repeat (apply Forall_cons;
              [split; [repeat (apply Forall_cons; [vm_compute; reflexivity|]); apply Forall_nil|vm_compute; reflexivity]|]).
      apply Forall_nil.
    - split; [reflexivity|]. split; vm_compute; reflexivity. }
  split.
  { cbn [tg_of RecvProofs.fits bx_stale]. constructor; [|constructor; [|constructor]];
      (split; [right; reflexivity|reflexivity]). }
  split.
  { cbn [tg_of RecvProofs.fits]. repeat constructor. }
  split; [vm_compute; reflexivity|]. split; [vm_compute; reflexivity|]. split; [vm_compute; reflexivity|].
  split; [vm_compute; reflexivity|].
  eexists. split; [vm_compute; reflexivity|]. split; [vm_compute; reflexivity|]. split; [vm_compute; reflexivity|].
  split; [vm_compute; reflexivity|].
  eexists. split; [vm_compute; reflexivity|]. split; [vm_compute; reflexivity|]. vm_compute. split; reflexivity.
Qed.

(* 4. client-to-server direction (model/Send.v, C02): every proper prefix of a Data packet as the client writes
      it - plain or as the one frame of compress.Writer - is rejected by the reference server-side packet parser, and
      no proper prefix of the whole stream of a query parses as a packet sequence *)
From CH Require Import model.Send proofs.SendProofs proofs.ClientPrefixProofs.

Theorem client_packet_prefix_rejected : forall H comp decomp, codec_rt comp decomp ->
  forall k b b' table cols ts p,
  SendProofs.cols_ok cols -> str_okb table = true -> SendProofs.fits H comp k b cols ->
  blank_targets ts = blank_targets cols ->
  packet_bytes H comp k b table cols = Some p ->
  forall j, (j < length p)%nat ->
    is_ok (parse_data H decomp (compressed k) b' (k_rev k) ts (firstn j p)) = false.
Proof. exact client_packet_prefix_rejected_thm. Qed.
Print Assumptions client_packet_prefix_rejected.

Theorem client_stream_prefix_rejected : forall H comp decomp, codec_rt comp decomp ->
  forall k b b' u bs,
  gate (k_rev k) FeatureSettingsSerializedAsStrings = true ->
  query_ok (proto_query k u) = true ->
  str_okb (ext_table u) = true ->
  SendProofs.cols_ok (u_ext u) -> SendProofs.cols_ok (u_input u) ->
  SendProofs.fits H comp k b (u_ext u) -> SendProofs.fits H comp k b (u_input u) -> SendProofs.fits H comp k b [] ->
  client_stream H comp k b u = Some bs ->
  forall j, (j < length bs)%nat ->
    is_ok (parse_client_stream H decomp k b' (schema_of u) (firstn j bs)) = false.
Proof. exact client_query_stream_prefix_rejected_thm. Qed.
Print Assumptions client_stream_prefix_rejected.
