(* C14 — The vectored writer emits exactly what was chained, once, in order.
   Nothing but statements closed by [exact], each followed by Print Assumptions.

   Vocabulary (coq/model/Writer.v):
     wrun     the Go Writer over an explicit heap of byte arrays (ChainBuffer callbacks that append /
              rewrite / shrink the staging buffer, ChainWrite of caller-owned slices, the caller
              overwriting such a slice, Flush to a sink); [None] = the Go code panics;
     srun     the specification: plain lists, no memory; [None] = the history leaves the documented
              contract of ChainBuffer (the callback appends to, or rewrites / shrinks the uncut tail of,
              the buffer); its result is, per flush, the concatenation in call order of everything
              appended or chained since the previous flush ("expected");
     flush_ok what one flush must look like against its expected bytes: the slices presented to the
              sink, concatenated, are a prefix of it and all of it when no error is returned; n is the
              number of bytes the sink took; for an io.Writer that keeps its contract the bytes taken
              are a prefix, everything iff no error, strictly less on error.
   BApp carries the reallocation oracle (force a reallocation, spare capacity of the new array):
   the statements quantify over it. *)
From CH Require Import model.Writer proofs.WriterProofs.
From CH Require Import model.Columns model.Block model.Send proofs.SendProofs.
Open Scope nat_scope.

(* for every initial buffer, every history inside the contract, every reallocation oracle and every
   sink: the writer does not panic and every flush delivers (a prefix of, complete iff the sink
   accepts) the concatenation in call order of what was appended or chained since the previous flush *)
Theorem writer_refines_concat : forall init cap e ops s' es,
  srun (sinit init e) ops = Some (s', es) ->
  exists st' fos, wrun (winit init cap e) ops = Some (st', fos) /\ wrel st' s' /\
                  all_flush_ok (flush_sinks ops) fos es.
Proof. exact refines_init. Qed.
Print Assumptions writer_refines_concat.

(* the same from any state related to a specification state (W1 + W2 are an invariant) *)
Theorem writer_refines_concat_inv : forall ops st s s' es,
  wrel st s -> srun s ops = Some (s', es) ->
  exists st' fos, wrun st ops = Some (st', fos) /\ wrel st' s' /\ all_flush_ok (flush_sinks ops) fos es.
Proof. exact refines_inv. Qed.
Print Assumptions writer_refines_concat_inv.

(* the expected bytes do not depend on the reallocation oracle *)
Theorem realloc_independent : forall ops s,
  srun s (map erase_oracle ops) = srun s ops /\ flush_sinks (map erase_oracle ops) = flush_sinks ops.
Proof. exact (fun ops s => conj (spec_ignores_oracle ops s) (flush_sinks_erase ops)). Qed.
Print Assumptions realloc_independent.

(* W3: after Flush, from ANY state and whatever the sink did, the vector is empty and the staging
   buffer is empty and uncut *)
Theorem flush_resets : forall st sk scr st' fo,
  flush st sk scr = Some (st', fo) ->
  vec st' = [] /\ boff st' = 0 /\ b_len (buf st') = 0 /\ ext st' = ext st.
Proof. exact flush_resets_any. Qed.
Print Assumptions flush_resets.

(* after a flush, successful or failed, the writer is a fresh writer: what later flushes deliver is
   fixed by the later operations alone, so nothing from before is written again *)
Theorem nothing_written_twice : forall st s sk scr st' fo ops s2 es,
  wrel st s -> flush st sk scr = Some (st', fo) ->
  srun (sfresh (ext st')) ops = Some (s2, es) ->
  exists st'' fos, wrun st' ops = Some (st'', fos) /\ wrel st'' s2 /\ all_flush_ok (flush_sinks ops) fos es.
Proof. exact after_flush_fresh. Qed.
Print Assumptions nothing_written_twice.

(* a sink that accepts everything receives exactly the expected bytes *)
Theorem accepting_sink_gets_everything : forall st s scr st' fo,
  wrel st s -> flush st SAccept scr = Some (st', fo) ->
  fo_err fo = false /\ accepted fo = expected s /\ fo_n fo = length (expected s).
Proof. exact flush_accepting. Qed.
Print Assumptions accepting_sink_gets_everything.

(* W2: between flushes the vector only grows and the bytes a chained piece refers to are never
   overwritten, whatever the callback (inside the contract) and the allocator do *)
Theorem chained_bytes_never_overwritten : forall st s o s' es st' fos,
  wrel st s -> sstep s o = Some (s', es) -> wstep st o = Some (st', fos) -> is_flush o = false ->
  (exists suffix, vec st' = vec st ++ suffix) /\
  forall a off len cap, In (PBuf a off len cap) (vec st) ->
    arr_read (harr (heap st') a) off len = arr_read (harr (heap st) a) off len.
Proof. exact chained_bytes_stable. Qed.
Print Assumptions chained_bytes_never_overwritten.

(* "cut slices are capacity-limited": every buffer-backed piece has cap = len and lies inside its
   array, so a consumer appending to the slice it was handed changes no byte of the heap *)
Theorem cut_slices_capacity_limited : forall st s, wrel st s ->
  forall a off len cap, In (PBuf a off len cap) (vec st) ->
    cap = len /\ off + len <= length (harr (heap st) a) /\
    forall scr, scribble (heap st) (PBuf a off len cap) scr = heap st.
Proof. exact pieces_capacity_limited. Qed.
Print Assumptions cut_slices_capacity_limited.

(* the two encoding paths, at the level of writer operations: a sequence of append-only callbacks
   and chained slices (what every WriteColumn / WriteBlock issues) flushes to what the same steps
   append to a plain buffer.
   NOT stated here: write_column_eq / write_block_eq over the column model (forall ty and values,
   WriteColumn + Flush = EncodeColumn).  The column model is not part of this layer; that half of
   C14 is carried by the direct oracle of harness/c14.go on real columns and blocks. *)
Theorem chained_encoding_eq_buffer_encoding_partial : forall ops s sk scr,
  forallb enc_op ops = true ->
  exists s', srun s (ops ++ [WFlush sk scr]) =
             Some (s', [expected s ++ concat (map (plain (s_ext s)) ops)]).
Proof. exact enc_ops_expected. Qed.
Print Assumptions chained_encoding_eq_buffer_encoding_partial.

(* the column / block half, over the column model (model/Send.v mirrors every WriteColumn as a list of
   pieces - buffer appends and zero-copy chained slices - and Block.WriteBlock on top): for every type tree
   and contents the pieces carry exactly the bytes of EncodeColumn / EncodeBlock (and WriteBlock fails iff
   EncodeBlock fails).  Together with [chained_encoding_eq_buffer_encoding_partial] above (pieces flushed =
   pieces concatenated) this is write_column_eq / write_block_eq. *)
Theorem write_column_eq : forall b t d, pieces_bytes (write_col b t d) = enc b t d.
Proof. exact write_col_bytes. Qed.
Print Assumptions write_column_eq.

Theorem write_block_eq : forall b v i n cols,
  option_map pieces_bytes (write_block b v i n cols) = encode_block b v i n cols.
Proof. exact write_block_bytes. Qed.
Print Assumptions write_block_eq.

(* non-vacuity: a history with an in-place append, a zero-copy chain, a forced reallocation with a
   rewrite of the uncut tail, the caller overwriting the chained slice, a failing flush, and a second
   flush that delivers only what came after the first *)
Example c14_witness :
  let ops := [ WChainBuffer [BApp [10;11]%N false 0] ; WChainWrite 0 ;
               WChainBuffer [BApp [12;13;14]%N true 3 ; BSet 3 [255]%N] ;
               WMutExt 0 [7]%N ;
               WFlush (SFailAfter 3) [] ;
               WChainBuffer [BApp [17]%N false 0] ; WFlush SAccept [238]%N ] in
  option_map snd (srun (sinit [] [[1;2;3]%N]) ops) = Some [[10;11;7;2;3;12;255;14]%N; [17]%N] /\
  option_map (fun r => map (fun fo => (accepted fo, fo_n fo, fo_err fo)) (snd r)) (wrun (winit [] 4 [[1;2;3]%N]) ops)
    = Some [([10;11;7]%N, 3, true); ([17]%N, 1, false)].
Proof. vm_compute. split; reflexivity. Qed.
