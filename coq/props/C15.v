(* C15 — The pure-Go build and the default build of the codecs behave identically. *)
From CH Require Import model.Columns proofs.PrimProofs proofs.ColumnsProofs proofs.ColumnsProofs2.
From CH Require Import gen.Codecs gen.Consts.
Open Scope N_scope.
Open Scope list_scope.

(* same bytes from both builds, for every type tree and every contents (little-endian host, which is
   what the build constraint of the unsafe files selects: [host_repr] is the model's statement of it) *)
Theorem safe_unsafe_encode_eq : forall t d n, wf_ty t = true -> wfd t n d -> enc Safe t d = enc Unsafe t d.
Proof. exact ColumnsProofs2.safe_unsafe_encode_eq. Qed.
Print Assumptions safe_unsafe_encode_eq.

(* same column from both builds when decoding what either build wrote, any trailing bytes *)
Theorem safe_unsafe_decode_eq : forall t b n d rest,
  wf_ty t = true -> n <= max_rows -> wfd t n d ->
  dec Safe t n (enc b t d ++ rest) = dec Unsafe t n (enc b t d ++ rest).
Proof. exact ColumnsProofs2.safe_unsafe_decode_eq. Qed.
Print Assumptions safe_unsafe_decode_eq.

(* each build decodes what the other wrote to the original contents *)
Theorem cross_build_roundtrip : forall t, wf_ty t = true -> forall b b' n d rest,
  n <= max_rows -> wfd t n d -> dec b' t n (enc b t d ++ rest) = Ok d rest.
Proof. exact ColumnsProofs.col_roundtrip. Qed.
Print Assumptions cross_build_roundtrip.

(* the fixed-width family: per-element little-endian stores = memcpy of the slice, for every width *)
Theorem fixed_width_encode_eq : forall w vs, enc_fix Safe w vs = enc_fix Unsafe w vs.
Proof. intros w vs. now rewrite !enc_fix_eq. Qed.
Print Assumptions fixed_width_encode_eq.

(* the documented divergence, outside the property (input not accepted by both): a Bool byte other than
   0/1 is rejected by the pure-Go build and kept by the default build *)
Theorem bool_divergence : forall x rest, 2 <= x -> x < 256 ->
  is_ok (dec Safe TBool 1 (x :: rest)) = false /\ dec Unsafe TBool 1 (x :: rest) = Ok (DBool [x]) rest.
Proof. exact ColumnsProofs2.bool_divergence. Qed.
Print Assumptions bool_divergence.

(* tie to the source: the table of generated codecs, re-read from /repo on this run, is consistent:
   every codec that has an unsafe variant has complementary build constraints, and the element size of
   each generated file is positive and at most 512 bytes *)
Definition codec_row_ok (r : String.string * N * bool * String.string * String.string * String.string * String.string) : bool :=
  let '(name, size, has_unsafe, safe_tag, unsafe_tag, _, _) := r in
  (0 <? size) && (size <=? 512) &&
  (negb has_unsafe ||
   (String.eqb safe_tag "!(amd64 || arm64 || riscv64) || purego" &&
    String.eqb unsafe_tag "(amd64 || arm64 || riscv64) && !purego")).
Theorem codec_table_consistent : forallb codec_row_ok codec_table = true /\ (30 <= length codec_table)%nat.
Proof. split; [vm_compute; reflexivity|vm_compute; lia]. Qed.
Print Assumptions codec_table_consistent.

Example c15_nonvacuous :
  let t := TTuple [TFix [] 4; TBool; TUUID; TArr (TFix [] 16)] in
  exists d, of_rows t [VTup [VN 4294967295; VBool true; VB [1;2;3;4;5;6;7;8;9;10;11;12;13;14;15;16]; VArr [VN 1; VN (2 ^ 127)]]] = Some d /\
    enc Safe t d = enc Unsafe t d /\ dec Safe t 1 (enc Unsafe t d) = Ok d [] /\ dec Unsafe t 1 (enc Safe t d) = Ok d [].
Proof. eexists. split; [vm_compute; reflexivity|]. repeat split; vm_compute; reflexivity. Qed.
