(* C16 - Reused columns carry nothing over: reset+decode and re-encode are exact.
   Model: model/ColState.v (histories over one column object, on top of model/Columns.v);
   proofs: proofs/ColStateProofs.v.  Only [exact] proofs here. *)
From CH Require Import model.Columns model.ColState proofs.ColumnsProofs proofs.ColStateProofs proofs.ColStateProofs2.
Open Scope N_scope.
Open Scope list_scope.

(* Every finite history over {Append, AppendArr, Reset, Prepare, EncodeColumn, WriteColumn+Flush,
   EncodeRawBlock, Infer, Reset+Decode (succeeding or failing)} on a column of ANY type tree (c16_ty =
   wf_ty and no empty tuple), started in ANY usable state (whatever stale dictionary / keys / raw codes
   it carries), refines the plain list of values, after every step:
   - the accessors (Rows, Row(i)) report exactly the list: Append adds its value once at the end, AppendArr
     its values in order, Reset empties, Prepare / encoding / Infer change nothing;
   - the bytes of every encode step decode, in either build, to exactly the column just encoded, whose rows
     are the current list ([readback]; side condition: no nesting level exceeds the decoder's 10^8 row limit);
   - Reset+Decode leaves exactly what a fresh column gives for the same bytes, whatever was held before;
   - after a failed decode or a failed Prepare nothing is claimed until the next Reset / successful decode. *)
Theorem reuse_refines_list : forall ops b s l,
  c16_ty (fst s) = true -> (forall x, l = Some x -> inv s x) -> refines b s l ops.
Proof. exact reuse_refines_list_proof. Qed.
Print Assumptions reuse_refines_list.

(* Append on a usable column of any type: one more row holding the value; earlier rows and their values untouched *)
Theorem append_once : forall b t d l v, c16_ty t = true -> inv (t, d) l -> has_ty t v = true ->
  exists d', cstep b (t, d) (OAppend v) = ((t, d'), ONone) /\ inv (t, d') (l ++ [v]) /\
             rows t d' = rows t d + 1 /\ forall i, (i < nrows t d)%nat -> row t d' i = row t d i.
Proof. exact append_once_proof. Qed.
Print Assumptions append_once.

(* encoding again without a change produces the same bytes and leaves the same object *)
Theorem encode_twice_same : forall b s o,
  match o with OEncode | OWrite | OEncodeBlock => True | _ => False end ->
  forall bs, snd (cstep b s o) = OBytes bs -> cstep b (fst (cstep b s o)) o = cstep b s o.
Proof. exact encode_twice. Qed.
Print Assumptions encode_twice_same.

(* Prepare rewrites derived fields only: same Rows, same Row(i) for every i, usable stays usable, idempotent *)
Theorem prepare_only_derived : forall t d d', prepare t d = Some d' ->
  rows t d' = rows t d /\ (forall i, row t d' i = row t d i) /\ (good t d -> good t d') /\ prepare t d' = Some d'.
Proof. exact prepare_ok. Qed.
Print Assumptions prepare_only_derived.

(* what an encode step sends: the prepared column, which both builds decode back exactly, with the rows unchanged *)
Theorem encode_reads_back : forall b t d d', c16_ty t = true -> good t d -> prepare t d = Some d' ->
  good t d' /\ abs t d' = abs t d /\
  (small t d' -> rows t d' <= max_rows -> forall b' rest,
     dec b' t (rows t d') (enc b t d' ++ rest) = Ok d' rest /\
     dec_col b' t (rows t d') (col_body b t d' ++ rest) = Ok d' rest).
Proof. exact encode_readback. Qed.
Print Assumptions encode_reads_back.

(* Results.DecodeResult on a reused column = on a fresh one *)
Theorem reset_decode_fresh : forall b t d n bs st,
  cstep b (t, d) (ODecode n bs st) = cstep b (t, empty t) (ODecode n bs st).
Proof. exact reset_decode_fresh_proof. Qed.
Print Assumptions reset_decode_fresh.

(* the encoding of any usable prepared column is "valid data" for the decode steps of a history *)
Theorem encoded_is_valid_data : forall b b0 t d l rest, c16_ty t = true -> good t d -> prepare t d = Some d ->
  small t d -> rows t d <= max_rows -> abs t d = Some l -> dec_valid b t (rows t d) (col_body b0 t d ++ rest).
Proof. exact dec_valid_of_enc. Qed.
Print Assumptions encoded_is_valid_data.

(* the side condition [dec_valid] of decode steps ("arbitrary valid data") is a theorem: whatever the column decoders
   accept from in-memory input (bytes, fewer than 2^63 of them) is a usable column with every row readable - for the
   pure-Go build and every type tree, and for the default build and every type tree without Bool (which keeps Bool
   bytes other than 0/1 as they are, C15 bool_divergence) *)
Theorem decoded_is_usable : forall b t n bs, c16_ty t = true -> okb b t = true -> wf_bytes bs -> blen bs < 2 ^ 63 ->
  dec_valid b t n bs.
Proof. exact dec_valid_proved. Qed.
Print Assumptions decoded_is_usable.

(* ... hence the history theorem with no hypothesis on decoded data: decode steps may be given ANY in-memory input,
   well-formed or not (the build / Bool condition must hold for the column's type and for every type adopted by Infer) *)
Theorem reuse_refines_list_any_input : forall ops b s l,
  c16_ty (fst s) = true -> okb b (fst s) = true -> (forall x, l = Some x -> inv s x) -> refines_mem b s l ops.
Proof. exact reuse_refines_list_mem_proof. Qed.
Print Assumptions reuse_refines_list_any_input.

(* DecodeColumn of any accepted input: usable column, the requested number of rows, every Row(i) readable *)
Theorem decode_gives_rows : forall t, c16_ty t = true -> forall b n s d r, okb b t = true -> wfl s ->
  dec b t n s = Ok d r -> good t d /\ rows t d = n /\ readable t d.
Proof. exact dec_good. Qed.
Print Assumptions decode_gives_rows.

(* Infer replaces type parameters only: Rows, Row(i) and usability are those of the old type *)
Theorem infer_keeps_rows : forall t t', wf_ty t = true -> same_shape t t' = true ->
  (forall d, rows t' d = rows t d) /\ (forall d i, row t' d i = row t d i) /\ (forall d, good t d -> good t' d).
Proof. exact infer_shape. Qed.
Print Assumptions infer_keeps_rows.

(* non-vacuity: LowCardinality(String); the defect-2 history (append after an encode), a decode of a dictionary
   in another order with an unused entry, an append after it, and the re-encoding with the rebuilt dictionary *)
Example c16_history :
  let t := TLowCard TStr in
  let r := run Unsafe (t, empty t)
               [OAppend (VB [97]); OAppend (VB [98]); OEncode; OAppend (VB [99]); OEncode; OEncode;
                ODecode 2 [1;0;0;0;0;0;0;0; 0;6;0;0;0;0;0;0; 3;0;0;0;0;0;0;0; 1;120;1;98;1;97; 2;0;0;0;0;0;0;0; 1;2] (DNothing 0);
                OAppend (VB [97]); OEncodeBlock] in
  c16_ty t = true /\
  map (fun x => abs (fst (fst x)) (snd (fst x))) r =
    [Some [VB [97]]; Some [VB [97]; VB [98]]; Some [VB [97]; VB [98]]; Some [VB [97]; VB [98]; VB [99]];
     Some [VB [97]; VB [98]; VB [99]]; Some [VB [97]; VB [98]; VB [99]]; Some [VB [98]; VB [97]];
     Some [VB [98]; VB [97]; VB [97]]; Some [VB [98]; VB [97]; VB [97]]] /\
  map snd r =
    [ONone; ONone;
     OBytes [0;6;0;0;0;0;0;0; 2;0;0;0;0;0;0;0; 1;97;1;98; 2;0;0;0;0;0;0;0; 0;1];
     ONone;
     OBytes [0;6;0;0;0;0;0;0; 3;0;0;0;0;0;0;0; 1;97;1;98;1;99; 3;0;0;0;0;0;0;0; 0;1;2];
     OBytes [0;6;0;0;0;0;0;0; 3;0;0;0;0;0;0;0; 1;97;1;98;1;99; 3;0;0;0;0;0;0;0; 0;1;2];
     ODecoded 0; ONone;
     OBytes [1;0;0;0;0;0;0;0; 0;6;0;0;0;0;0;0; 2;0;0;0;0;0;0;0; 1;98;1;97; 3;0;0;0;0;0;0;0; 0;1;1]].
Proof. vm_compute. repeat split; reflexivity. Qed.
