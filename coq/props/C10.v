(* C10 — Cancellation ends the query promptly, sends Cancel and closes the connection.
   Nothing but statements closed by [exact], each followed by Print Assumptions.

   Vocabulary: as in props/C04.v (coq/model/DoLTS.v).  [GEnv] is the environment step "the caller's context is
   cancelled or its deadline passes"; it is enabled in every state until Do has returned, so quantifying over
   schedules quantifies over every instant of cancellation.  [pcancel s]: that step has happened.
   [ret s]: the classes the error returned by Do matches (KCtx = the context's error).
   [count_cancel] / [no_stray]: Cancel packets on the wire / no stray byte in front of one.
   [dac s]: data Write calls that reached the connection after the cancellation; [inflight s]: the chunks of the
   flush that was in progress at that instant ([] if none was).  [rac s]: reads the receiver started after the
   group context was done. *)
From CH Require Import model.DoLTS proofs.DoLTSProofs proofs.DoLTSProofs2 proofs.DoLTSProofs3.

(* every scenario, every fault, every instant of cancellation, every schedule: if the caller's context ended
   before Do returned and Do returned an error, then the client is closed, the error matches the context's
   error, all three goroutines have returned, at most one Cancel packet was written and it is the bare one-byte
   packet, and the only data written after the cancellation belongs to the flush already in progress *)
Theorem cancel_closes : forall sc sched s,
  wf_prog true (sc_prog sc) = true ->
  s = run all_fixed sc sched (init sc) ->
  terminal s = true -> failed s = true -> pcancel s = true ->
  closed s = true /\ has_ctx (ret s) = true /\ all_done s = true /\
  count_cancel (wire s) <= 1 /\ no_stray (wire s) = true /\ dac s <= length (inflight s).
Proof. exact cancel_closes_thm. Qed.
Print Assumptions cancel_closes.

(* the antecedent "Do returned an error" is not a loophole: if the context ends at any instant at which the
   cancel-watch goroutine has not yet taken its decision (in particular at every instant before the receive loop
   has ended), Do does return an error *)
Theorem cancel_noticed : forall sc sched1 sched2 s1 s2,
  wf_prog true (sc_prog sc) = true ->
  s1 = run all_fixed sc sched1 (init sc) ->
  (wmd s1 = WWait \/ wmd s1 = WWake) -> pcancel s1 = false -> terminal s1 = false ->
  s2 = run all_fixed sc sched2 (step_env s1) ->
  terminal s2 = true -> failed s2 = true.
Proof. exact cancel_noticed_thm. Qed.
Print Assumptions cancel_noticed.

(* in every reachable state: at most one Cancel, never a stray byte, and -- PARTIAL, this is the model's half of
   "promptly" -- after the group context is done the receiver starts at most one more read before it leaves its
   loop (that read is bounded by the read timeout on the implementation; seconds are observed, not proved) *)
Theorem cancel_steps_bounded_partial : forall sc sched s,
  wf_prog true (sc_prog sc) = true -> s = run all_fixed sc sched (init sc) ->
  count_cancel (wire s) <= 1 /\ no_stray (wire s) = true /\ rac s <= 1.
Proof. exact cancel_wellformed_thm. Qed.
Print Assumptions cancel_steps_bounded_partial.

(* the Write of the one-byte Cancel packet FAILS (the outbound path is broken when the caller gives up; the fault
   [sc_cancel_wfault]: nothing is written - a one-byte packet has no proper prefix but the empty one): everything
   cancel_closes says still holds - the client ends closed, the error matches the context's error, all goroutines
   have returned, nothing but the flush in progress is written - and no Cancel is on the wire *)
Theorem cancel_closes_cancel_write_fails : forall sc sched s,
  wf_prog true (sc_prog sc) = true -> sc_cancel_wfault sc = true ->
  s = run all_fixed sc sched (init sc) ->
  terminal s = true -> failed s = true -> pcancel s = true ->
  closed s = true /\ has_ctx (ret s) = true /\ all_done s = true /\
  count_cancel (wire s) = 0 /\ no_stray (wire s) = true /\ dac s <= length (inflight s).
Proof. exact cancel_closes_cancel_write_fails_thm. Qed.
Print Assumptions cancel_closes_cancel_write_fails.

Theorem cancel_write_fault_nothing_written : forall fx sc sched s,
  sc_cancel_wfault sc = true -> s = run fx sc sched (init sc) -> count_cancel (wire s) = 0.
Proof. exact cancel_write_fault_thm. Qed.
Print Assumptions cancel_write_fault_nothing_written.

(* "the call returns" once the context is done, for EVERY server script (a server that repeats the schema block of
   an INSERT included: the handler Do installs hands the block over through a channel of capacity one in a select
   that also watches the context), every fault and both configurations: from every reachable state in which the
   caller's context has ended - more generally the group's context is done, which also covers the failure of one of
   the three goroutines - some schedule of at most [do_bound sc] steps (a bound that depends on the scenario only)
   leads to a state in which Do has returned.  The schedule built lets an armed read deadline fire rather than wait
   for the server (the read timeout of the implementation); with do_terminates_partial (no step increases the
   variant but a firing deadline) this is the model's half of "returns promptly".
   NOT proved: that the Go scheduler takes such a schedule; seconds. *)
Theorem do_returns_when_context_ends : forall fx sc sched0 s,
  (has_wait (sc_prog sc) = true -> sc_insert sc = true) ->
  s = run fx sc sched0 (init sc) -> pcancel s = true ->
  exists sched, length sched <= do_bound sc /\ terminal (run fx sc sched s) = true.
Proof. exact do_returns_when_context_ends_thm. Qed.
Print Assumptions do_returns_when_context_ends.

Theorem do_returns_when_group_context_done : forall fx sc sched0 s,
  (has_wait (sc_prog sc) = true -> sc_insert sc = true) ->
  s = run fx sc sched0 (init sc) -> cancelled s = true ->
  exists sched, length sched <= do_bound sc /\ terminal (run fx sc sched s) = true.
Proof. exact do_returns_when_group_context_done_thm. Qed.
Print Assumptions do_returns_when_group_context_done.

(* the honest statement for a context that never ends: it is NOT true that Do returns whatever the server does.
   A server that answers an INSERT with three schema blocks: the sender took the first and has finished, the second
   sits in the channel, the receiver waits to hand over the third; no goroutine has a step, only the end of the
   caller's context changes the state (do_waits_for_ever_witness).  This is the observation recorded for C10 in
   DESIGN.md, now a statement about the model; the seeded change C10C (a plain send instead of the select) makes the
   wait deaf to the context too. *)
Theorem do_returns_without_cancel_refuted :
  ~ (forall sc sched0 s, wf_prog true (sc_prog sc) = true ->
       (has_wait (sc_prog sc) = true -> sc_insert sc = true) ->
       s = run all_fixed sc sched0 (init sc) ->
       exists sched, Forall (fun ga => fst ga <> GEnv) sched /\ terminal (run all_fixed sc sched s) = true).
Proof. exact do_returns_without_cancel_refuted_thm. Qed.
Print Assumptions do_returns_without_cancel_refuted.

Theorem do_waits_for_ever_witness : let s := run all_fixed sc_w3 sch_w3 (init sc_w3) in
  wf_prog true (sc_prog sc_w3) = true /\ terminal s = false /\ pcancel s = false /\ cancelled s = false /\
  smd s = SDone /\ failed s = false /\ rmd s = RSendInfo /\ ci_item s = true /\
  forall g alt, g <> GEnv -> step all_fixed sc_w3 g alt s = s.
Proof. exact witness_3. Qed.
Print Assumptions do_waits_for_ever_witness.

(* handshake: for every server reply, with and without the addendum flush, whether or not the first (hello) or the
   second (addendum) Write of the handshake STALLS until the connection is closed (a peer that does not read), every
   schedule of the hello goroutine, the watchdog and handshake() itself, and every instant at which the caller's (or
   the handshake timeout's) context ends before handshake() has taken its final look at it: the connection is closed
   and the error returned matches the context's error *)
Theorem handshake_cancel : forall addendum st1 st2 reply sched s,
  s = hrun true addendum st1 st2 reply sched hinit -> hterminal s = true -> h_pc s = true ->
  h_closed s = true /\ has_ctx (h_ret s) = true /\ h_ok s = false.
Proof. exact handshake_cancel_thm. Qed.
Print Assumptions handshake_cancel.

(* ... and handshake() does return: whichever write stalls, from every reachable state in which the context has
   ended at most 13 steps lead to a final state (the watchdog is still there to close the connection, which ends
   the stalled write; the seeded change C10D moved the addendum write behind the watchdog's retirement) *)
Theorem handshake_returns_when_context_ends : forall fixed addendum st1 st2 reply sched0 s,
  s = hrun fixed addendum st1 st2 reply sched0 hinit -> h_pc s = true ->
  exists sched, length sched <= 13 /\ hterminal (hrun fixed addendum st1 st2 reply sched s) = true.
Proof. exact handshake_returns_when_context_ends_thm. Qed.
Print Assumptions handshake_returns_when_context_ends.

(* without the end of the context a stalled write is a handshake that does not return (HandshakeTimeout is what
   bounds it in practice: it is part of the context handed to handshake()) *)
Theorem handshake_stalled_write_needs_cancel : let s := hrun true true false true HrHello hsch_stall hinit in
  hterminal s = false /\ h_pc s = false /\ hmd s = H2Write /\
  forall g alt, g <> HEnv -> hstep true true false true HrHello g alt s = s.
Proof. exact witness_hs_stall. Qed.
Print Assumptions handshake_stalled_write_needs_cancel.

(* the code as found: Cancel was preceded by a stray zero byte (witness_6); after "cancel, then a server
   exception" Do returned the exception, sent no Cancel and left the client open (witness_20) *)
Theorem cancel_closes_refuted :
  ~ (forall sc sched s, wf_prog true (sc_prog sc) = true -> s = run as_found sc sched (init sc) ->
       terminal s = true -> failed s = true -> pcancel s = true ->
       closed s = true /\ has_ctx (ret s) = true /\ no_stray (wire s) = true).
Proof. exact cancel_closes_refuted_thm. Qed.
Print Assumptions cancel_closes_refuted.

Theorem cancel_closes_refuted_stray_byte : let s := run as_found sc_w6 sch_w6 (init sc_w6) in
  terminal s = true /\ failed s = true /\ pcancel s = true /\ no_stray (wire s) = false.
Proof. exact witness_6. Qed.
Print Assumptions cancel_closes_refuted_stray_byte.

(* the handshake as found: Connect could return a client whose connection the watchdog had closed (witness_hs),
   or the context's error with the connection left open (witness_hs2) *)
Theorem handshake_cancel_refuted :
  ~ (forall a st1 st2 r sched s, s = hrun false a st1 st2 r sched hinit -> hterminal s = true -> h_pc s = true ->
       h_closed s = true /\ has_ctx (h_ret s) = true /\ h_ok s = false).
Proof. exact handshake_cancel_refuted_thm. Qed.
Print Assumptions handshake_cancel_refuted.

Theorem handshake_cancel_refuted_open : let s := hrun false true false false HrHello hsch_w2 hinit in
  hterminal s = true /\ h_pc s = true /\ h_closed s = false /\ has_ctx (h_ret s) = true.
Proof. exact witness_hs2. Qed.
Print Assumptions handshake_cancel_refuted_open.

(* non-vacuity: the two witness schedules on the code as it is now: one bare Cancel, closed, context error *)
Example c10_witness :
  let s6 := run all_fixed sc_w6 sch_w6 (init sc_w6) in
  let s20 := run all_fixed sc_w20 sch_w20 (init sc_w20) in
  (terminal s6, failed s6, pcancel s6, closed s6, wire s6, ret s6) = (true, true, true, true, [WChunk true; WCancel], [KCtx]) /\
  (terminal s20, failed s20, pcancel s20, closed s20, wire s20, ret s20) = (true, true, true, true, [WChunk true; WCancel], [KExc; KCtx]).
Proof. vm_compute. split; reflexivity. Qed.

(* non-vacuity of the new faults and environments: the Cancel write fails on witness 6's schedule (closed, the
   context's error, no Cancel on the wire, one Close); the server repeats the schema block three times and the
   context ends in the state of do_waits_for_ever_witness (Do returns: closed, context error, one Cancel); the
   addendum write stalls, the context ends, the watchdog closes the connection and the write fails *)
Example c10_witness_faults :
  let s6 := run all_fixed sc_w6f sch_w6 (init sc_w6f) in
  let s3 := run all_fixed sc_w3 sch_w3c (init sc_w3) in
  let h := hrun true true false true HrHello hsch_stall_c hinit in
  (terminal s6, failed s6, pcancel s6, closed s6, wire s6, ret s6, nclose s6) = (true, true, true, true, [WChunk true], [KCtx], 1) /\
  (terminal s3, failed s3, pcancel s3, closed s3, wire s3, ret s3, nclose s3) =
    (true, true, true, true, [WChunk true; WChunk false; WChunk true; WChunk true; WCancel], [KCtx], 1) /\
  (hterminal h, h_pc h, h_closed h, h_ret h, h_ok h) = (true, true, true, [KIO; KCtx], false) /\
  do_bound sc_w3 = 75.
Proof. vm_compute. repeat split; reflexivity. Qed.
