(* C10 — Cancellation ends the query promptly, sends Cancel and closes the connection.
   Nothing but statements closed by [exact], each followed by Print Assumptions.

   Vocabulary: as in props/C04.v (coq/model/DoLTS.v).  [GEnv] is the environment step "the caller's context is
   cancelled or its deadline passes"; it is enabled in every state until Do has returned, so quantifying over
   schedules quantifies over every instant of cancellation.  [pcancel s]: that step has happened.
   [ret s]: the classes the error returned by Do matches (KCtx = the context's error).
   [count_cancel] / [no_stray]: Cancel packets on the wire / no stray byte in front of one.
   [dac s]: data Write calls that reached the connection after the cancellation; [inflight s]: the chunks of the
   flush that was in progress at that instant ([] if none was).  [rac s]: reads the receiver started after the
   group context was done. *)
From CH Require Import model.DoLTS proofs.DoLTSProofs proofs.DoLTSProofs2.

(* every scenario, every fault, every instant of cancellation, every schedule: if the caller's context ended
   before Do returned and Do returned an error, then the client is closed, the error matches the context's
   error, all three goroutines have returned, at most one Cancel packet was written and it is the bare one-byte
   packet, and the only data written after the cancellation belongs to the flush already in progress *)
Theorem cancel_closes : forall sc sched s,
  wf_prog true (sc_prog sc) = true ->
  s = run all_fixed sc sched (init sc) ->
  terminal s = true -> failed s = true -> pcancel s = true ->
  closed s = true /\ has_ctx (ret s) = true /\ all_done s = true /\
  count_cancel (wire s) <= 1 /\ no_stray (wire s) = true /\ dac s <= length (inflight s).
Proof. exact cancel_closes_thm. Qed.
Print Assumptions cancel_closes.

(* the antecedent "Do returned an error" is not a loophole: if the context ends at any instant at which the
   cancel-watch goroutine has not yet taken its decision (in particular at every instant before the receive loop
   has ended), Do does return an error *)
Theorem cancel_noticed : forall sc sched1 sched2 s1 s2,
  wf_prog true (sc_prog sc) = true ->
  s1 = run all_fixed sc sched1 (init sc) ->
  (wmd s1 = WWait \/ wmd s1 = WWake) -> pcancel s1 = false -> terminal s1 = false ->
  s2 = run all_fixed sc sched2 (step_env s1) ->
  terminal s2 = true -> failed s2 = true.
Proof. exact cancel_noticed_thm. Qed.
Print Assumptions cancel_noticed.

(* in every reachable state: at most one Cancel, never a stray byte, and -- PARTIAL, this is the model's half of
   "promptly" -- after the group context is done the receiver starts at most one more read before it leaves its
   loop (that read is bounded by the read timeout on the implementation; seconds are observed, not proved) *)
Theorem cancel_steps_bounded_partial : forall sc sched s,
  wf_prog true (sc_prog sc) = true -> s = run all_fixed sc sched (init sc) ->
  count_cancel (wire s) <= 1 /\ no_stray (wire s) = true /\ rac s <= 1.
Proof. exact cancel_wellformed_thm. Qed.
Print Assumptions cancel_steps_bounded_partial.

(* handshake: for every server reply, with and without the addendum flush, every schedule of the hello goroutine,
   the watchdog and handshake() itself, and every instant at which the caller's (or the handshake timeout's)
   context ends before handshake() has taken its final look at it: the connection is closed and the error returned
   matches the context's error *)
Theorem handshake_cancel : forall addendum reply sched s,
  s = hrun true addendum reply sched hinit -> hterminal s = true -> h_pc s = true ->
  h_closed s = true /\ has_ctx (h_ret s) = true /\ h_ok s = false.
Proof. exact handshake_cancel_thm. Qed.
Print Assumptions handshake_cancel.

(* the code as found: Cancel was preceded by a stray zero byte (witness_6); after "cancel, then a server
   exception" Do returned the exception, sent no Cancel and left the client open (witness_20) *)
Theorem cancel_closes_refuted :
  ~ (forall sc sched s, wf_prog true (sc_prog sc) = true -> s = run as_found sc sched (init sc) ->
       terminal s = true -> failed s = true -> pcancel s = true ->
       closed s = true /\ has_ctx (ret s) = true /\ no_stray (wire s) = true).
Proof. exact cancel_closes_refuted_thm. Qed.
Print Assumptions cancel_closes_refuted.

Theorem cancel_closes_refuted_stray_byte : let s := run as_found sc_w6 sch_w6 (init sc_w6) in
  terminal s = true /\ failed s = true /\ pcancel s = true /\ no_stray (wire s) = false.
Proof. exact witness_6. Qed.
Print Assumptions cancel_closes_refuted_stray_byte.

(* the handshake as found: Connect could return a client whose connection the watchdog had closed (witness_hs),
   or the context's error with the connection left open (witness_hs2) *)
Theorem handshake_cancel_refuted :
  ~ (forall a r sched s, s = hrun false a r sched hinit -> hterminal s = true -> h_pc s = true ->
       h_closed s = true /\ has_ctx (h_ret s) = true /\ h_ok s = false).
Proof. exact handshake_cancel_refuted_thm. Qed.
Print Assumptions handshake_cancel_refuted.

Theorem handshake_cancel_refuted_open : let s := hrun false true HrHello hsch_w2 hinit in
  hterminal s = true /\ h_pc s = true /\ h_closed s = false /\ has_ctx (h_ret s) = true.
Proof. exact witness_hs2. Qed.
Print Assumptions handshake_cancel_refuted_open.

(* non-vacuity: the two witness schedules on the code as it is now: one bare Cancel, closed, context error *)
Example c10_witness :
  let s6 := run all_fixed sc_w6 sch_w6 (init sc_w6) in
  let s20 := run all_fixed sc_w20 sch_w20 (init sc_w20) in
  (terminal s6, failed s6, pcancel s6, closed s6, wire s6, ret s6) = (true, true, true, true, [WChunk true; WCancel], [KCtx]) /\
  (terminal s20, failed s20, pcancel s20, closed s20, wire s20, ret s20) = (true, true, true, true, [WChunk true; WCancel], [KExc; KCtx]).
Proof. vm_compute. split; reflexivity. Qed.
