(* C06 — Hostile or corrupted input yields an error, never a crash or a bad column.
   In the model [Crash] stands for everything that takes a Go process down while decoding: an index or
   slice-bounds panic, make() with a negative size, and an allocation request driven by a wire length that
   exceeds the library's own caps (row cap x widest element) while the bytes are not there. *)
From CH Require Import model.Columns model.ColState model.Fields model.Messages
  proofs.PrimProofs proofs.MessagesProofs proofs.ColumnsProofs proofs.ColumnsProofs2 proofs.ColStateProofs proofs.ColStateProofs2 proofs.ColumnsProofs3.
Open Scope N_scope.
Open Scope list_scope.

(* every byte string, every type tree (no empty tuples; element widths within the widest generated codec),
   any declared row count within the cap: DecodeColumn returns a column or an error *)
Theorem decode_never_crashes : forall t, c16_ty t = true -> widths_ok t = true ->
  forall b n, okb b t = true -> n <= max_rows -> forall s, wfl s -> is_crash (dec b t n s) = false.
Proof. exact dec_nocrash. Qed.
Print Assumptions decode_never_crashes.

(* the same with the state prefix, as Results.DecodeResult runs it *)
Theorem decode_column_never_crashes : forall t, c16_ty t = true -> widths_ok t = true ->
  forall b n, okb b t = true -> n <= max_rows -> forall s, wfl s -> is_crash (dec_column b t n s) = false.
Proof. exact dec_column_nocrash. Qed.
Print Assumptions decode_column_never_crashes.

(* a row count beyond the cap is refused before anything is allocated *)
Theorem rows_beyond_cap_rejected : forall z s, (Consts.maxRowsInBLock < z)%Z -> check_rows z s = Err ELimit.
Proof.
  intros z s H. unfold check_rows. unfold Consts.maxRowsInBLock in *.
  replace (z <? 0)%Z with false by lia. replace (100000000 <? z)%Z with true by lia. reflexivity.
Qed.
Print Assumptions rows_beyond_cap_rejected.

(* whatever the decoders accept is consistent: the column reports the block's row count and every row
   accessor works for every index below it (and the contents satisfy the column's invariant) *)
Theorem decoded_column_consistent : forall t, c16_ty t = true -> forall b n s d r, okb b t = true -> wfl s ->
  dec b t n s = Ok d r -> good t d /\ rows t d = n /\ readable t d.
Proof. exact dec_good. Qed.
Print Assumptions decoded_column_consistent.

(* protocol messages: every layout message at every revision *)
Theorem decode_message_never_crashes : forall v l s, wfl s -> is_crash (decode_fields v l s) = false.
Proof. intros v l. exact (proj1 (decode_fields_nocrash v l)). Qed.
Print Assumptions decode_message_never_crashes.

(* no decoder loops forever: the model's functions are total, and the fuel of the loops whose trip count
   is data dependent never runs out *)
Theorem blockinfo_loop_total : forall i s, decode_BlockInfo i s <> Err EFuel.
Proof. exact BlockInfo_never_fuel. Qed.
Print Assumptions blockinfo_loop_total.

(* non-vacuity: a hostile LowCardinality(String) column - dictionary of one entry, a key that points outside
   it - is rejected; a dictionary size of 2^40 is refused by the row check with nothing allocated *)
Example c06_nonvacuous :
  let t := TLowCard TStr in
  c16_ty t = true /\ widths_ok t = true /\
  dec Unsafe t 1 (put_i64 1536 ++ put_i64 1 ++ put_str [97] ++ put_i64 1 ++ [5]) = Err EInvalid /\
  dec Unsafe t 1 (put_i64 1536 ++ put_i64 (2 ^ 40) ++ put_str [97]) = Err ELimit.
Proof. repeat split; vm_compute; reflexivity. Qed.
