(* C06 — Hostile or corrupted input yields an error, never a crash or a bad column.
   In the model [Crash] stands for everything that takes a Go process down while decoding: an index or
   slice-bounds panic, make() with a negative size, and an allocation request driven by a wire length that
   exceeds the library's own caps (row cap x widest element) while the bytes are not there. *)
From CH Require Import model.Columns model.ColState model.Fields model.Messages
  proofs.PrimProofs proofs.MessagesProofs proofs.ColumnsProofs proofs.ColumnsProofs2 proofs.ColStateProofs proofs.ColStateProofs2 proofs.ColumnsProofs3.
Open Scope N_scope.
Open Scope list_scope.

(* every byte string, every type tree (no empty tuples; element widths within the widest generated codec),
   any declared row count within the cap: DecodeColumn returns a column or an error *)
Theorem decode_never_crashes : forall t, c16_ty t = true -> widths_ok t = true ->
  forall b n, okb b t = true -> n <= max_rows -> forall s, wfl s -> is_crash (dec b t n s) = false.
Proof. exact dec_nocrash. Qed.
Print Assumptions decode_never_crashes.

(* the same with the state prefix, as Results.DecodeResult runs it *)
Theorem decode_column_never_crashes : forall t, c16_ty t = true -> widths_ok t = true ->
  forall b n, okb b t = true -> n <= max_rows -> forall s, wfl s -> is_crash (dec_column b t n s) = false.
Proof. exact dec_column_nocrash. Qed.
Print Assumptions decode_column_never_crashes.

(* a row count beyond the cap is refused before anything is allocated *)
Theorem rows_beyond_cap_rejected : forall z s, (Consts.maxRowsInBLock < z)%Z -> check_rows z s = Err ELimit.
Proof.
  intros z s H. unfold check_rows. unfold Consts.maxRowsInBLock in *.
  replace (z <? 0)%Z with false by lia. replace (100000000 <? z)%Z with true by lia. reflexivity.
Qed.
Print Assumptions rows_beyond_cap_rejected.

(* whatever the decoders accept is consistent: the column reports the block's row count and every row
   accessor works for every index below it (and the contents satisfy the column's invariant) *)
Theorem decoded_column_consistent : forall t, c16_ty t = true -> forall b n s d r, okb b t = true -> wfl s ->
  dec b t n s = Ok d r -> good t d /\ rows t d = n /\ readable t d.
Proof. exact dec_good. Qed.
Print Assumptions decoded_column_consistent.

(* protocol messages: every layout message at every revision *)
Theorem decode_message_never_crashes : forall v l s, wfl s -> is_crash (decode_fields v l s) = false.
Proof. intros v l. exact (proj1 (decode_fields_nocrash v l)). Qed.
Print Assumptions decode_message_never_crashes.

(* no decoder loops forever: the model's functions are total, and the fuel of the loops whose trip count
   is data dependent never runs out *)
Theorem blockinfo_loop_total : forall i s, decode_BlockInfo i s <> Err EFuel.
Proof. exact BlockInfo_never_fuel. Qed.
Print Assumptions blockinfo_loop_total.

(* non-vacuity: a hostile LowCardinality(String) column - dictionary of one entry, a key that points outside
   it - is rejected; a dictionary size of 2^40 is refused by the row check with nothing allocated *)
Example c06_nonvacuous :
  let t := TLowCard TStr in
  c16_ty t = true /\ widths_ok t = true /\
  dec Unsafe t 1 (put_i64 1536 ++ put_i64 1 ++ put_str [97] ++ put_i64 1 ++ [5]) = Err EInvalid /\
  dec Unsafe t 1 (put_i64 1536 ++ put_i64 (2 ^ 40) ++ put_str [97]) = Err ELimit.
Proof. repeat split; vm_compute; reflexivity. Qed.

(* ================================================================================================================ *)
(* Block level: any byte string decoded as a whole BLOCK (block info loop, column and row counts, per column a name,  *)
(* a hostile type STRING, the custom-serialization flag, state prefix and body), over the real instances of           *)
(* model/Block.v's parameters (model/Results.v) and over Results.v's refined loop.  Proofs: proofs/BlockCrashProofs.v *)
(* ================================================================================================================ *)
From CH Require Import model.Block model.TypeStr model.Results proofs.TypeStrProofs proofs.ResultsProofs proofs.BlockCrashProofs.

(* every in-memory byte string, every revision, both builds (no Bool clause), Results or Results.Auto(), every list of
   typed targets within the premises of decode_never_crashes, any time-zone database [zone] and any ToLower [tl] *)
Theorem decode_block_never_crashes : forall zone tl auto b v ts,
  Forall (fun t => c16_ty (c_ty t) = true /\ widths_ok (c_ty t) = true) ts ->
  forall s, wfl s -> is_crash (decode_block conflicts_b (infer_target zone tl) (infer_auto zone tl) auto b v ts s) = false.
Proof. exact decode_block_nocrash_c06. Qed.
Print Assumptions decode_block_never_crashes.

(* the same under the weaker premise [blk_ty] (element widths <= 512, LowCardinality over scalars, no empty tuple,
   FixedString size > 0) that inference preserves: [wf_ty] is NOT preserved - a hostile enum definition need not be
   [enum_defs_ok] - so this is the form the induction over a block needs *)
Theorem decode_block_never_crashes_gen : forall zone tl auto b v ts,
  Forall (fun t => blk_ty (c_ty t) = true) ts ->
  forall s, wfl s -> is_crash (decode_block conflicts_b (infer_target zone tl) (infer_auto zone tl) auto b v ts s) = false.
Proof. exact decode_block_nocrash. Qed.
Print Assumptions decode_block_never_crashes_gen.

(* one column, strengthened: no Bool clause, weaker type premise *)
Theorem decode_never_crashes_any_build : forall t, dty_ok t = true -> widths_ok t = true ->
  forall b n, n <= max_rows -> forall s, wfl s -> is_crash (dec b t n s) = false.
Proof. exact dec_nocrash_gen. Qed.
Print Assumptions decode_never_crashes_any_build.

Theorem c06_premises_imply_blk_ty : forall t, c16_ty t = true -> widths_ok t = true -> blk_ty t = true.
Proof. exact c06_premises_blk. Qed.
Print Assumptions c06_premises_imply_blk_ty.

(* whatever ColAuto.Infer creates from a hostile type string is within the premises (proved from TypeStr.infer and
   the generated tables: FixedString only as FixedString(8..512), LowCardinality only over scalars, ...) *)
Theorem auto_types_within_premises : forall zone tl s t, infer_auto zone tl s = Some t -> blk_ty t = true.
Proof. exact auto_ty_ok. Qed.
Print Assumptions auto_types_within_premises.

(* the Inferable hook of a typed target (enum definitions, DateTime/DateTime64 parameters, Array/Map/Tuple/Named
   forwarding) keeps the premises and the Bool clause *)
Theorem infer_target_preserves_premises : forall zone tl t s t', infer_target zone tl t s = Some t' ->
  (blk_ty t = true -> blk_ty t' = true) /\ (forall b, okb b t' = okb b t).
Proof. exact infer_target_keeps_premises. Qed.
Print Assumptions infer_target_preserves_premises.

(* ... and, failed or not, leaves the contents of the column object with the same meaning *)
Theorem infer_keeps_contents : forall zone tl t s,
  let t' := fst (infer_st zone tl t s) in
  (forall d, rows t' d = rows t d) /\ (forall d i, row t' d i = row t d i) /\
  (dty_ok t = true -> forall d, good t d -> good t' d) /\
  (lc_elem t = true -> forall v, has_ty t' v = has_ty t v).
Proof. exact infer_st_dkeep. Qed.
Print Assumptions infer_keeps_contents.

(* the type-string functions called on the hostile strings neither panic nor exhaust their fuel (C19, cited) *)
Theorem block_type_functions_never_panic : forall zone tl s,
  is_crash (infer_col zone tl s) = false /\ infer_col zone tl s <> Err EFuel /\
  (forall c, exists r, conflicts_r s c = rok r) /\ (forall t, snd (infer_st zone tl t s) <> ICrash).
Proof. exact block_type_functions_total. Qed.
Print Assumptions block_type_functions_never_panic.

(* termination is by structure, not by fuel: for every input and every list of targets *)
Theorem decode_block_never_fuel : forall zone tl auto b v ts s,
  decode_block conflicts_b (infer_target zone tl) (infer_auto zone tl) auto b v ts s <> Err EFuel.
Proof. exact decode_block_nofuel_all. Qed.
Print Assumptions decode_block_never_fuel.

(* an accepted block that is not the end marker: counts within the caps, every target within the premises and (modulo
   the Bool clause) good, reporting the block's row count, every row readable; as many targets as columns, names
   sticky, Bool clause unchanged.  Without targets the headers are skipped (then c = 0 or r = 0). *)
Theorem decoded_block_consistent : forall zone tl auto b v ts s i c r ts' rest,
  wfl s -> Forall (fun t => blk_ty (c_ty t) = true) ts ->
  decode_block conflicts_b (infer_target zone tl) (infer_auto zone tl) auto b v ts s = Ok (i, c, r, ts') rest ->
  ((c =? 0) && (r =? 0))%Z = false ->
  (0 <= c <= Consts.maxColumnsInBlock)%Z /\ (0 <= r <= Consts.maxRowsInBLock)%Z /\
  Forall (fun t' => blk_ty (c_ty t') = true /\
                    (okb b (c_ty t') = true ->
                     good (c_ty t') (c_data t') /\ rows (c_ty t') (c_data t') = Z.to_N r /\ readable (c_ty t') (c_data t'))) ts' /\
  match ts with
  | [] => if auto then Z.of_nat (length ts') = c else ts' = [] /\ (c = 0 \/ r = 0)%Z
  | _ => Z.of_nat (length ts') = c /\
         Forall2 (fun t t' => (c_name t <> [] -> c_name t' = c_name t) /\ okb b (c_ty t') = okb b (c_ty t)) ts ts'
  end.
Proof. exact decode_block_consistent. Qed.
Print Assumptions decoded_block_consistent.

(* with the premises of decoded_column_consistent on the targets *)
Theorem decoded_block_consistent_typed : forall zone tl auto b v ts s i c r ts' rest,
  wfl s -> Forall (fun t => c16_ty (c_ty t) = true /\ widths_ok (c_ty t) = true /\ okb b (c_ty t) = true) ts -> ts <> [] ->
  decode_block conflicts_b (infer_target zone tl) (infer_auto zone tl) auto b v ts s = Ok (i, c, r, ts') rest ->
  ((c =? 0) && (r =? 0))%Z = false ->
  Z.of_nat (length ts') = c /\
  Forall2 (fun t t' => (c_name t <> [] -> c_name t' = c_name t) /\
                       good (c_ty t') (c_data t') /\ rows (c_ty t') (c_data t') = Z.to_N r /\ readable (c_ty t') (c_data t')) ts ts'.
Proof. exact decode_block_consistent_c06. Qed.
Print Assumptions decoded_block_consistent_typed.

(* the refined loop of model/Results.v (typed, AutoResult and Results.Auto() targets; the state after a FAILURE is part
   of the result).  Only the TYPES of the targets are constrained on entry - their contents may be what an earlier failed
   block left.  No crash, no fuel; an accepted block leaves every target usable (invariant, every Row(i) below Rows()
   readable, modulo the Bool clause) and reporting the block's row count; after a failure the targets that were usable
   still are - a target whose Infer or type check failed keeps readable contents under its new parameters - except the one
   whose DecodeState / DecodeColumn failed: it holds the partially decoded column of model/DecPart.v, which is not
   readable in general (C18: ResultsProofs2.residue_unreadable_in_general; readable for flat types: residue_flat) *)
Theorem decode_block_refined_safe : forall zone tl auto b v ts s, wfl s -> targets_ty_ok ts ->
  let o := decode_block_st zone tl auto b v ts s in
  targets_ty_ok (bo_targets o) /\ bout_fine (bo_out o) /\
  match bo_out o with
  | BOk rest => wfl rest /\
                (((bo_cols o =? 0) && (bo_rows o =? 0))%Z = false ->
                 targets_ok b (bo_targets o) /\ targets_rows b (Z.to_N (bo_rows o)) (bo_targets o))
  | BFail _ k _ => targets_ok b ts -> targets_ok b (bo_targets o) \/ all_but_failing b k (bo_targets o)
  | BCrash _ => True
  end.
Proof. exact decode_block_st_safe. Qed.
Print Assumptions decode_block_refined_safe.

(* any sequence of hostile blocks against the same reused targets: no crash, no fuel, and every accepted block leaves all
   targets usable with its row count, whatever the failed blocks before it left behind *)
Theorem block_sequence_safe : forall zone tl auto b v blocks ts, Forall wfl blocks -> targets_ty_ok ts ->
  Forall (block_out_safe b) (run_blocks zone tl auto b v ts blocks).
Proof. exact run_blocks_safe. Qed.
Print Assumptions block_sequence_safe.

(* non-vacuity at block level (Results.Auto(), default build, revision 54460): a block whose second column declares
   Array(LowCardinality(FixedString(16))) with a dictionary of 2^40 entries is refused by the row check with nothing
   allocated; hostile type strings are refused without a crash; 200 balanced and 10 000 unbalanced nested Array( too *)
Example c06_block_nonvacuous :
  c06x_auto c06x_hostile_block = Err ELimit /\
  infer_auto no_zone (fun x => x) (s2b "Array(LowCardinality(FixedString(16)))") = Some (TArr (TLowCard (TFix (s2b "FixedString(16)") 16))) /\
  c06x_auto (c06x_type_block (s2b "Enum8('a'=1")) = Err EInvalid /\
  c06x_auto (c06x_type_block (s2b "FixedString(0)")) = Err EInvalid /\
  c06x_auto (c06x_type_block (s2b "FixedString(99999999999999999999)")) = Err EInvalid /\
  c06x_auto (c06x_type_block (s2b "DateTime64(9999999999)")) = Err EInvalid /\
  c06x_auto (c06x_type_block (s2b "Tuple()")) = Err EInvalid /\
  c06x_auto (c06x_type_block (c06x_nested 200 [])) = Err EInvalid /\
  c06x_auto (c06x_type_block (List.concat (repeat (s2b "Array(") (100 * 100)))) = Err EInvalid /\
  (exists i ts rest, c06x_auto (c06x_type_block (s2b "Array(Nullable(UInt8))")) = Ok (i, 1%Z, 1%Z, ts) rest /\ length ts = 1%nat).
Proof.
  do 9 (split; [vm_compute; reflexivity|]).
  eexists; eexists; eexists. split; vm_compute; reflexivity.
Qed.
