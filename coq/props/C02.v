(* C02 - Everything the client writes for a query is a well-formed packet sequence.
   Nothing but statements closed by [exact], each followed by Print Assumptions, and one
   non-vacuity Example.

   Vocabulary (coq/model/Send.v, coq/proofs/SendProofs.v):
     ccfg / cquery   the connected client (negotiated revision k_rev, compression k_comp = None |
                     Some method, connection settings, client name/version, local address) and the
                     fields of ch.Query the sender reads;
     client_do       the sender goroutine of Client.Do on the real vectored writer of model/Writer.v
                     (sendQuery, encodeBlock, sendInput, flush), [client_stream] = the bytes of all its
                     flushes when there is no input callback; None = the sender returned an error;
     parse_client_stream   the reference server-side parser built from the model's decoders: Query
                     packet (decode_Query), then Data packets (code, ClientData header, block decoded
                     into typed targets; with compression exactly ONE checksummed frame per block, holding
                     exactly the block) up to the first empty block, the same again for the input if the
                     query has input, then end of stream: it fails on anything left over;
     expected_packets      [Query q'; external Data?; empty Data; (input Data; empty Data)?] with q' the
                     proto.Query literal of sendQuery projected to the revision;
     cols_ok         every column has the block's row count, Prepare succeeds, the prepared contents are
                     well-formed (wfd) for a well-formed type, names and type strings are byte strings;
     fits            with compression: the block and its frame are within the limits of the library's own
                     frame reader (128 MiB); without: True.
   H = CityHash128 (any function), comp / decomp = the block codecs with the single hypothesis codec_rt
   (decompress . compress = id), as in C05.  [b] is the client's build (default / purego), [b'] the
   server's: any combination. *)
From CH Require Import model.Send proofs.CompressProofs proofs.SendProofs.
From CH Require Import gen.Features gen.Codes gen.Consts.
Open Scope N_scope.

(* the property: for every query record, every revision from settings-as-strings on and every
   compression mode, what the client writes parses as exactly the expected packet list, each block in
   one Data packet (compressed: one checksummed frame), and the parser consumes the stream exactly *)
Theorem client_stream_wellformed : forall H comp decomp, codec_rt comp decomp ->
  forall k b b' u bs,
  gate (k_rev k) FeatureSettingsSerializedAsStrings = true ->
  query_ok (proto_query k u) = true ->
  str_okb (ext_table u) = true ->
  cols_ok (u_ext u) -> cols_ok (u_input u) ->
  fits H comp k b (u_ext u) -> fits H comp k b (u_input u) -> fits H comp k b [] ->
  client_stream H comp k b u = Some bs ->
  parse_client_stream H decomp k b' (schema_of u) bs = Ok (expected_packets k u) [].
Proof. exact client_stream_wellformed_thm. Qed.
Print Assumptions client_stream_wellformed.

(* the branch below settings-as-strings, stated separately: the library's own server-side Query
   decoder is its "unsupported version" error there, so no stream parses *)
Theorem client_stream_unsupported_below : forall H decomp k b' sc s,
  gate (k_rev k) FeatureSettingsSerializedAsStrings = false ->
  is_ok (parse_client_stream H decomp k b' sc s) = false.
Proof. exact client_stream_unsupported_thm. Qed.
Print Assumptions client_stream_unsupported_below.

(* "nothing else is written": the sender on the real writer (staging buffer, chained caller slices,
   the truncate-and-replace of the compressed path, every flush) emits exactly the events of its pure
   specification p_do, which is a concatenation of packets; no byte comes from anywhere else *)
Theorem sender_writes_only_packets : forall H comp k b u streaming h,
  client_do H comp k b u streaming h = p_do H comp k b u streaming (map visible h).
Proof. exact client_do_pure. Qed.
Print Assumptions sender_writes_only_packets.

(* every block is framed as a Data packet with its table name: code, ClientData header, then the
   block as Block.EncodeBlock writes it - plain when compression is disabled, as exactly one frame
   of compress.Writer when it is enabled *)
Theorem data_packet_framing : forall H comp k b table cols p,
  packet_bytes H comp k b table cols = Some p ->
  exists blk, block_of b (k_rev k) cols = Some blk /\
    match k_comp k with
    | None => p = data_header (k_rev k) table ++ blk
    | Some m => exists f, compress_frame H comp m blk = inr f /\ p = data_header (k_rev k) table ++ f
    end.
Proof. exact packet_bytes_char. Qed.
Print Assumptions data_packet_framing.

(* the vectored path (Block.WriteBlock: buffer appends and zero-copy chained slices) carries the
   bytes of the buffer path (Block.EncodeBlock), for every type tree and contents; fails iff it fails *)
Theorem write_block_eq_encode_block : forall b v i n cols,
  option_map pieces_bytes (write_block b v i n cols) = encode_block b v i n cols.
Proof. exact write_block_bytes. Qed.
Print Assumptions write_block_eq_encode_block.

Theorem write_column_eq_encode_column : forall b t d, pieces_bytes (write_col b t d) = enc b t d.
Proof. exact write_col_bytes. Qed.
Print Assumptions write_column_eq_encode_column.

(* non-vacuity: a concrete client (revision 54460, two connection settings) and a query with id, body,
   a query setting, a parameter, a quota key, external data (a String column) and input (UInt8 and
   Nullable(FixedString(2)) columns, 2 rows, both with zero-copy pieces) meet the hypotheses; the stream
   is produced (plain, and framed with method None under a concrete hash) and parses to the expected
   five packets with nothing left *)
Definition ex_k (c : option method) : ccfg :=
  {| k_rev := 54460 ; k_comp := c ;
     k_settings := [([109], [49], true); ([110], [], false)] ;
     k_name := [99; 104] ; k_major := 0 ; k_minor := 1 ; k_patch := 0 ; k_addr := [49; 58; 50] |}.
Definition ex_u : cquery :=
  {| u_id := [113; 49] ; u_body := [73; 78; 83] ; u_quota := [107] ; u_secret := [] ; u_initial_user := [] ;
     u_settings := [([115], [118], true)] ; u_params := [([112], [39; 120; 39])] ; u_span := None ;
     u_ext := [ {| c_name := [101] ; c_ty := TStr ; c_data := DBytes [[104; 105]] |} ] ; u_ext_table := [] ;
     u_input := [ {| c_name := [97] ; c_ty := TFix [85; 73; 110; 116; 56] 1 ; c_data := DFix [7; 255] |} ;
                  {| c_name := [98] ; c_ty := TNullable (TFixedStr 2) ;
                     c_data := DNullable [0; 1] (DFixedStr [120; 121; 0; 0]) |} ] |}.
Definition ex_H (b : list N) : N * N := (fold_left N.add b 7, fold_left (fun a x => 31 * a + x) b 1).
Definition ex_comp (m : method) (p : list N) : option (list N) := Some p.
Definition ex_decomp (mb : N) (c : list N) (ds : N) : option (list N) := Some c.

Example c02_nonvacuous :
  query_ok (proto_query (ex_k None) ex_u) = true /\
  (forall c, In c [None; Some MNone] ->
     match client_stream ex_H ex_comp (ex_k c) Unsafe ex_u with
     | Some bs => parse_client_stream ex_H ex_decomp (ex_k c) Safe (schema_of ex_u) bs
                  = Ok (expected_packets (ex_k c) ex_u) [] /\ length (expected_packets (ex_k c) ex_u) = 5%nat
     | None => False
     end).
Proof.
  split; [vm_compute; reflexivity|].
  intros c [<-|[<-|[]]]; vm_compute; split; reflexivity.
Qed.
