(* C09 - Streamed INSERT sends one faithful block per input round, then a terminator.
   Nothing but statements closed by [exact], each followed by Print Assumptions, and one
   non-vacuity Example.

   Vocabulary (coq/model/Send.v, coq/proofs/SendProofs.v):
     send_input      sendInput + the last flush of Do's sender, on the real vectored writer of
                     model/Writer.v, driven by a CALLBACK HISTORY: one [cb_step] per OnInput call =
                       cb_muts  what the call writes into caller memory: ANY of the slices the writer has
                                captured so far (ChainWrite of fixed-width / UInt8 / FixedString / Bool
                                column memory) may be overwritten with anything - Reset + Append into the
                                same backing array, an in-place overwrite, a re-sort are all instances;
                       cb_data  the contents of the input columns when the call returns;
                       cb_ret   nil | io.EOF | wrapped io.EOF | another error.
                     Its result: the events (EvFlush bytes = one Flush reaching the connection, EvCall = one
                     OnInput call) in order, the status (StOk / StErr / StStuck = the history ended before
                     the sender did) and the writer afterwards;
     spec_stream     the specification, plain lists: the contents at the start of every round, whether
                     the terminator follows, the status.  A round's block is the contents when the round
                     began: the initial contents (or, if they had no rows, what the first call left), then
                     what every call returning nil left; EOF with rows left adds them as a last block; a
                     callback error ends the list with no terminator;
     emit            the Data packets of a list of blocks (false: one failed to encode, nothing after it is sent);
     stream_spec_holds k b bl spec w0 (evs, status)  :=  wire evs = w0 ++ packets ++ (terminator iff all
                     encoded and the spec says so) and status = the spec's (StErr if an encode failed);
     visible         what a callback step shows to the sender: (cb_data, cb_ret) - not its memory writes. *)
From CH Require Import model.Send proofs.CompressProofs proofs.SendProofs.
From CH Require Import gen.Features gen.Codes gen.Consts.
Open Scope N_scope.

(* for every history, compression mode, revision and build: the wire carries the Data packet of the
   contents at the start of round 1, ..., of round n, in order, then exactly one empty block; EOF with
   rows left sends them as a last block; a callback error ends sending with an error and no terminator.
   [bl]: the terminator packet (it always encodes without compression; with compression it is the
   premise that the codec accepts the 2..12-byte empty block). *)
Theorem stream_insert_blocks : forall H comp k b st cols h acc evs status st' bl,
  fresh_writer st -> cols <> [] -> packet_bytes H comp k b [] [] = Some bl ->
  send_input H comp k b st cols true h acc = (evs, status, st') ->
  stream_spec_holds H comp k b bl (spec_stream cols h) (wire acc) (evs, status).
Proof. exact stream_insert_blocks_thm. Qed.
Print Assumptions stream_insert_blocks.

(* the terminator is in the specification iff the sender ends normally *)
Theorem terminator_iff_ok : forall cols h bs term stt,
  spec_stream cols h = (bs, term, stt) -> (term = true <-> stt = StOk).
Proof. exact spec_stream_term_iff. Qed.
Print Assumptions terminator_iff_ok.

(* run the sender on a prefix h1 of a history: it stops (StStuck) where the next callback would be
   invoked, with [evs1] emitted - by the theorem above the blocks of rounds 1..|h1|+1, all flushed.
   Whatever the earlier calls wrote into the memory of the captured slices (h1' instead of h1: same
   visible behaviour, arbitrary other writes) and whatever the next and later calls do (h2, h2':
   reset, overwrite in place, anything), exactly those events stay: no mutation in a later round
   changes a byte of an earlier block - with and without compression, zero-copy columns included *)
Theorem earlier_blocks_immutable : forall H comp k b st cols h1 h1' h2 h2' acc evs1 st1,
  fresh_writer st -> cols <> [] -> map visible h1 = map visible h1' ->
  send_input H comp k b st cols true h1 acc = (evs1, StStuck, st1) ->
  (exists more s st2, send_input H comp k b st cols true (h1 ++ h2) acc = (evs1 ++ more, s, st2)) /\
  (exists more s st2, send_input H comp k b st cols true (h1' ++ h2') acc = (evs1 ++ more, s, st2)).
Proof. exact earlier_blocks_immutable_thm. Qed.
Print Assumptions earlier_blocks_immutable.

(* what the server receives: when Do's sender ends normally, the reference server-side parser reads the
   whole stream as the Query, the external data, and then one Data packet per round holding the
   (prepared) contents of that round, followed by exactly one empty block - and nothing else *)
Theorem server_receives_one_block_per_round : forall H comp decomp, codec_rt comp decomp ->
  forall k b b' u h evs bs term stt,
  gate (k_rev k) FeatureSettingsSerializedAsStrings = true ->
  query_ok (proto_query k u) = true ->
  str_okb (ext_table u) = true ->
  cols_ok (u_ext u) -> fits H comp k b (u_ext u) -> fits H comp k b [] ->
  u_input u <> [] ->
  client_do H comp k b u true h = (evs, StOk) ->
  spec_stream (u_input u) h = (bs, term, stt) ->
  Forall (fun c => tblock_ok H comp k b (u_input u) ([], c)) bs ->
  parse_client_stream H decomp k b' (schema_of u) (wire evs) =
  Ok (PQuery (project_Query (k_rev k) (proto_query k u)) ::
      (match u_ext u with [] => [] | _ => [PData (data_packet (k_rev k) (ext_table u) (u_ext u))] end) ++
      [PData (blank_packet (k_rev k))] ++
      map (fun c => PData (data_packet (k_rev k) [] c)) bs ++ [PData (blank_packet (k_rev k))]) [].
Proof. exact stream_parses_thm. Qed.
Print Assumptions server_receives_one_block_per_round.

(* non-vacuity.  One UInt8 column (zero-copy in every build) with rows [1;2].
   Call 1 overwrites the captured slice in place with [9;9], leaves [3], returns nil;
   call 2 overwrites both captured slices, leaves [4;5], returns a wrapped io.EOF.
   The wire is: Query, end-of-external-data, block [1;2], block [3], block [4;5], terminator; the
   flush of each block precedes the call that follows it.  And the model is sensitive to the order:
   the same in-place overwrite between ChainWrite and Flush does change the bytes flushed. *)
Definition ex_k : ccfg :=
  {| k_rev := 54460 ; k_comp := None ; k_settings := [] ;
     k_name := [99; 104] ; k_major := 0 ; k_minor := 1 ; k_patch := 0 ; k_addr := [49] |}.
Definition ex_col (vs : list N) : col := {| c_name := [97] ; c_ty := TFix [85; 73; 110; 116; 56] 1 ; c_data := DFix vs |}.
Definition ex_u : cquery :=
  {| u_id := [113] ; u_body := [73] ; u_quota := [] ; u_secret := [] ; u_initial_user := [] ;
     u_settings := [] ; u_params := [] ; u_span := None ; u_ext := [] ; u_ext_table := [] ;
     u_input := [ex_col [1; 2]] |}.
Definition ex_h : list cb_step :=
  [ {| cb_muts := [(0%nat, [9; 9])] ; cb_data := [DFix [3]] ; cb_ret := CbNil |} ;
    {| cb_muts := [(0%nat, [8; 8]); (1%nat, [8])] ; cb_data := [DFix [4; 5]] ; cb_ret := CbWrapEof |} ].
Definition ex_H (b : list N) : N * N := (0, 0).
Definition ex_comp (m : method) (p : list N) : option (list N) := Some p.
Definition ex_decomp (mb : N) (c : list N) (ds : N) : option (list N) := Some c.
Definition ex_blk (vs : list N) : list N :=
  match packet_bytes ex_H ex_comp ex_k Unsafe [] [ex_col vs] with Some p => p | None => [] end.

Example c09_nonvacuous :
  spec_stream (u_input ex_u) ex_h = ([[ex_col [1; 2]]; [ex_col [3]]; [ex_col [4; 5]]], true, StOk) /\
  (match client_do ex_H ex_comp ex_k Unsafe ex_u true ex_h with
   | ([EvFlush q; EvFlush b1; EvCall; EvFlush b2; EvCall; EvFlush b3], StOk) =>
     b1 = ex_blk [1; 2] /\ b2 = ex_blk [3] /\
     Some b3 = option_map (fun bl => ex_blk [4; 5] ++ bl) (packet_bytes ex_H ex_comp ex_k Unsafe [] []) /\
     match parse_client_stream ex_H ex_decomp ex_k Safe (schema_of ex_u) (q ++ b1 ++ b2 ++ b3) with
     | Ok [PQuery _; PData e0; PData d1; PData d2; PData d3; PData e1] [] =>
       map d_data [e0; d1; d2; d3; e1] = [[]; [ex_col [1; 2]]; [ex_col [3]]; [ex_col [4; 5]]; []]
     | _ => False
     end
   | _ => False
   end) /\
  (match run_items (winit [] 0 []) [IP (WZ [1; 2])] with
   | Some st1 => option_map snd (do_flush (run_muts st1 [(0%nat, [9; 9])])) = Some [9; 9] /\
                 option_map snd (do_flush st1) = Some [1; 2]
   | None => False
   end).
Proof. vm_compute. repeat split; reflexivity. Qed.
