(* C12 — No data race inside the library under any permitted concurrent use.
   Nothing but statements closed by [exact], each followed by Print Assumptions.

   Vocabulary (coq/model/Races.v, coq/proofs/RacesProofs.v; gen/Access.v is regenerated from /repo's
   query.go, client.go, handshake.go, ping.go, query_metrics.go, chpool/*.go on every run):
     access_table   per goroutine ROLE (Do: before / sender / receiver / watcher / after; handshake: before /
                    watchdog / worker / after; Ping & ServerInfo; Close & IsClosed from a foreign goroutine;
                    pool: constructor / user / health checker / creator / destructor / Close) every read and
                    write of a field of ch.Client, ch.queryMetricsTotal, chpool.Client, chpool.Pool,
                    chpool.connResource and of a local of Do captured by its closures, with its protection
                    (plain | atomic | under which mutex), function and line;
     no_conflict    the executable check: any two accesses to the same shared location, one of them a write,
                    from roles that may run at the same time, are both atomic or both under the same mutex;
     thread         a role, the owner call (episode) it belongs to, a program = list of Acc a | Lock m | Unlock m;
     wf_system      every program only performs accesses the table lists for its role, performs an access
                    marked "under m" only between its own Lock m and Unlock m; one thread per role and owner
                    call, one kind of call per episode (the permitted use: one Do / Ping at a time per client);
     execution      ANY interleaving of the programs (a list of events whose projection on every thread is
                    that thread's program) in which a mutex has one holder at a time and which respects the
                    structural happens-before edges (go statement, Wait, one owner call after the other,
                    Connect returns before anybody else has the client, newPool before the pool's goroutines);
     hb             happens-before on the events of an execution: program order, those structural edges,
                    Unlock m -> a later Lock m, transitively closed;
     race_free      no two accesses by different threads to the same shared location, one a write, not both
                    atomic, are unordered by hb.
   The model mirrors ch-go AFTER /repo commits "fix: per-query metrics are accumulated under a mutex ..." and
   "fix: Do hands the sending goroutine a copy of the column info ..."; before the first one the table held
   plain writes of the metrics by sender and receiver and [access_table_ok] was false (as_found_rejected). *)
From Coq Require Import String List NArith Bool.
From CH Require Import gen.Access gen.Globals model.Races proofs.RacesProofs.
Import ListNotations.

(* the discipline is sound: for EVERY table that passes the check, EVERY system of threads built from it and
   EVERY interleaving, no two conflicting accesses are unordered *)
Theorem discipline_sound : forall t,
  no_conflict_accs t = true ->
  forall ths tr, wf_system t ths -> execution ths tr -> race_free ths tr.
Proof. exact RacesProofs.discipline_sound. Qed.
Print Assumptions discipline_sound.

(* the table regenerated from the source of this run passes the check *)
Theorem access_table_ok : no_conflict access_table = true.
Proof. exact RacesProofs.access_table_ok. Qed.
Print Assumptions access_table_ok.

(* ... so ch-go's own accesses race in no interleaving *)
Theorem ch_go_race_free : forall ths tr,
  wf_system (map conv access_table) ths -> execution ths tr -> race_free ths tr.
Proof. exact RacesProofs.ch_go_race_free. Qed.
Print Assumptions ch_go_race_free.

(* every role the translator emitted is one the model gives a concurrency structure to (an unknown role
   would be treated as concurrent with everything) *)
Theorem access_table_roles_known : roles_known access_table = true.
Proof. exact RacesProofs.access_table_roles_known. Qed.
Print Assumptions access_table_roles_known.

(* Close / IsClosed - the calls permitted from a foreign goroutine - write only under Client.mux *)
Theorem foreign_writes_locked : foreign_writes_locked access_table = true.
Proof. exact RacesProofs.access_table_foreign_writes_locked. Qed.
Print Assumptions foreign_writes_locked.

(* across the package boundary chpool's background goroutines use only Close / IsClosed on a client;
   Do and Ping are called by the goroutine that holds the pooled connection *)
Theorem pool_calls_ok : pool_calls_ok pool_client_calls = true.
Proof. exact RacesProofs.access_table_pool_calls_ok. Qed.
Print Assumptions pool_calls_ok.

(* the check rejects the table as found (sender and receiver writing a plain per-query counter) ... *)
Theorem as_found_rejected : no_conflict as_found_metrics = false.
Proof. exact RacesProofs.as_found_rejected. Qed.
Print Assumptions as_found_rejected.

(* ... and rightly so: that table has a well-formed system with a racy execution *)
Theorem as_found_races :
  wf_system (map conv as_found_metrics) racy_threads /\ execution racy_threads racy_trace
  /\ ~ race_free racy_threads racy_trace.
Proof. exact RacesProofs.racy_witness. Qed.
Print Assumptions as_found_races.

(* no shared package state: the table of statements in function bodies that write a package-level variable of the
   library (root package, proto, compress, chpool, otelch; init functions excluded), regenerated from the Go source on
   every run (translator/globals.go -> gen/Globals.v), is empty.  Such a variable would be memory that two clients on
   two goroutines - two holders of one pool - reach with no happens-before edge between them, outside every role of the
   access table. *)
Theorem no_shared_package_state : Globals.global_writes = [].
Proof. reflexivity. Qed.
Print Assumptions no_shared_package_state.

(* non-vacuity: the hypotheses of discipline_sound are satisfiable - a table with a sender and a receiver
   writing one location under one mutex passes the check, has a well-formed two-thread system and an
   execution of it (so the conclusion, race freedom, is really obtained for it) *)
Example c12_nonvacuous :
  no_conflict_accs demo_table = true /\ wf_system demo_table demo_threads /\ execution demo_threads demo_trace
  /\ race_free demo_threads demo_trace.
Proof. exact demo_ok. Qed.
