(* C04 — A failed query leaves the client closed or exactly at a packet boundary.
   Nothing but statements closed by [exact], each followed by Print Assumptions.

   Vocabulary (coq/model/DoLTS.v):
     scen        a scenario: the sender's straight-line program (what sendQuery / sendInput do for this query:
                 closed check, encodes, column gates, flushes, the colInfo wait, context checks, OnInput calls; an
                 encode that fails: QSelX = sendQuery itself fails on external data that cannot be encoded),
                 the server script (packets readable once the client has written [avail] chunks; the schema block
                 of an INSERT may be repeated any number of times), a cut of the server stream between or inside
                 packets, a client Write that fails with or without a partial write, the Write of the Cancel packet
                 failing ([sc_cancel_wfault]), conn.Close reporting an error although it closed ([sc_close_err]);
     run fx sc sched s   the state after the scheduler choices [sched : list (who * bool)] over the sender (GS),
                 receiver (GR), cancel-watch (GW), the goroutine that called Do (GM: g.Wait, then queryFailed)
                 and the environment step "the caller's context ends" (GEnv); the boolean resolves a read that
                 times out and a select with two ready cases.  Steps of a blocked or finished goroutine are no-ops,
                 so EVERY list is a schedule;
     all_fixed   the code as it is now; as_found: before the commits de4f5b3 899c6af 4c3f9a3 8cdbcdc;
     wf_prog     the sender's program leaves the writer empty or ending a packet at every flush (true of every
                 program [compile] produces: compile_is_wf);
     terminal    Do has returned; failed: with an error;
     clean       nothing encoded is waiting to be sent, the receiver stopped exactly after a packet, that packet
                 ended the query on the server's side, and what was written ends at a packet boundary;
     safe        closed \/ clean. *)
From CH Require Import model.DoLTS proofs.DoLTSProofs proofs.DoLTSProofs2 proofs.DoLTSProofs3.

(* every scenario, every fault, EVERY schedule: when Do has returned an error, the client is closed or clean *)
Theorem do_safe : forall sc sched s,
  wf_prog true (sc_prog sc) = true ->
  s = run all_fixed sc sched (init sc) ->
  terminal s = true -> failed s = true -> safe s.
Proof. exact do_safe_thm. Qed.
Print Assumptions do_safe.

(* sharper: an OPEN client after a failed query is possible only when the server itself ended the query with
   an exception that was decoded completely *)
Theorem do_open_only_after_exception : forall sc sched s,
  wf_prog true (sc_prog sc) = true ->
  s = run all_fixed sc sched (init sc) ->
  terminal s = true -> failed s = true ->
  closed s = true \/ (gotexc s = true /\ clean s).
Proof. exact do_safe_strong. Qed.
Print Assumptions do_open_only_after_exception.

(* the scenarios of the real client (select / insert / streaming insert, compressed or not, with or without a
   gate column, any OnInput history) satisfy the hypothesis wf_prog *)
Theorem compile_is_wf : forall k comp gate rows0 rounds, wf_prog true (compile k comp gate rows0 rounds) = true.
Proof. exact compile_wf. Qed.
Print Assumptions compile_is_wf.

(* a closed client rejects the next request, and Do itself, without any connection step (the state is unchanged) *)
Theorem closed_rejects : forall s, closed s = true ->
  next_request s = (ReqRejected, s) /\ do_entry_rejects s = true.
Proof. exact closed_rejects_thm. Qed.
Print Assumptions closed_rejects.

(* closed is set once: it never goes back, whatever the configuration, scenario and schedule ... *)
Theorem closed_stays : forall fx sc sched s, closed s = true -> closed (run fx sc sched s) = true.
Proof. exact closed_stays_thm. Qed.
Print Assumptions closed_stays.

(* ... and the connection is closed exactly once iff the client is closed *)
Theorem close_once : forall sc sched s,
  wf_prog true (sc_prog sc) = true -> s = run all_fixed sc sched (init sc) ->
  nclose s = if closed s then 1 else 0.
Proof. exact close_once_thm. Qed.
Print Assumptions close_once.

(* the next request on an open client after a failed query: exactly its own packet goes out first (nothing
   encoded for the failed query is sent), and the outbound stream is again at a packet boundary *)
Theorem next_request_clean : forall sc sched s,
  wf_prog true (sc_prog sc) = true ->
  s = run all_fixed sc sched (init sc) ->
  terminal s = true -> failed s = true -> closed s = false ->
  fst (next_request s) = ReqWrote [WChunk true] /\
  wire (snd (next_request s)) = wire s ++ [WChunk true] /\
  out_boundary (wire (snd (next_request s))) = true /\
  pend_chunks (snd (next_request s)) = [].
Proof. exact next_request_clean_thm. Qed.
Print Assumptions next_request_clean.

(* "the call returns": PARTIAL.  What is proved is termination of the model: a variant [mu] that no step
   increases, except that a read deadline firing adds at most one; hence along any schedule the variant is bounded
   by its initial value plus the number of read timeouts ... *)
Theorem do_terminates_partial : forall fx sc sched s,
  mu sc (run fx sc sched s) <= mu sc s + timeouts fx sc sched s.
Proof. exact measure_run_thm. Qed.
Print Assumptions do_terminates_partial.

(* ... and progress: while Do has not returned, some goroutine has a step that strictly decreases the variant,
   unless all that is left waits for the network (the receiver sits in a Read for which nothing has arrived: its
   armed deadline will fire) or for the caller (the receiver is handing a further schema block to a sender that no
   longer listens; only the end of the caller's context ends that wait).  [pinv] holds in every reachable state of
   a scenario whose program waits for colInfo only if the query is an INSERT (pinv_reachable).
   NOT proved: a bound in seconds; that every fair scheduler of the Go runtime picks the decreasing steps. *)
Theorem do_progress_partial : forall fx sc s,
  pinv sc s -> terminal s = false ->
  (exists g alt, is_timeout g alt s = false /\ mu sc (step fx sc g alt s) < mu sc s) \/
  (rmd s = RRead /\ next_read sc s = RdBlock) \/
  (rmd s = RSendInfo /\ ci_item s = true /\ cancelled s = false).
Proof. exact progress_thm. Qed.
Print Assumptions do_progress_partial.

Theorem pinv_reachable : forall fx sc sched,
  (has_wait (sc_prog sc) = true -> sc_insert sc = true) -> pinv sc (run fx sc sched (init sc)).
Proof. exact pinv_run. Qed.
Print Assumptions pinv_reachable.

(* a server that repeats the schema block of an INSERT, or otherwise leaves the receiver waiting, is the third
   disjunct of do_progress_partial; what ends that wait is stated in props/C10.v: do_returns_when_context_ends
   (once the group's context is done a bounded schedule reaches a final state, for every script) and
   do_returns_without_cancel_refuted (and not before). *)

(* sendQuery itself fails (external data that cannot be encoded; the error arises after the Query packet was
   encoded into the writer and before anything is flushed): no data Write ever reaches the connection, whatever the
   schedule; do_safe / do_open_only_after_exception apply to the scenario as to any other (the client ends closed,
   or open after a server exception with the writer emptied), and next_request_clean says that what was encoded for
   the failed query is never sent ahead of the next request *)
Theorem sendquery_failure_sends_nothing : forall comp gate rows0 rounds sc sched s,
  sc_prog sc = compile QSelX comp gate rows0 rounds -> s = run all_fixed sc sched (init sc) ->
  nwcalls s = 0 /\ nw s = 0 /\ data_toks (wire s) = [].
Proof. exact sendquery_failure_sends_nothing_thm. Qed.
Print Assumptions sendquery_failure_sends_nothing.

(* more generally: a program that never reaches a flush writes no data *)
Theorem no_flush_no_data : forall sc sched s,
  has_flush (sc_prog sc) = false -> s = run all_fixed sc sched (init sc) ->
  nwcalls s = 0 /\ nw s = 0 /\ data_toks (wire s) = [].
Proof. exact no_flush_no_data_thm. Qed.
Print Assumptions no_flush_no_data.

(* what conn.Close returns is an environment choice (crypto/tls reports an error when close_notify cannot be sent,
   and has closed the socket): no step of Do reads it - the whole state, in particular the flag [closed], is the
   same for both choices, for every configuration, scenario and schedule.  (Client.Close sets the flag BEFORE it
   calls conn.Close; every caller on the failure paths drops or merely reports Close's error.) *)
Theorem close_result_irrelevant : forall fx sc b sched,
  run fx (with_close_err b sc) sched (init (with_close_err b sc)) = run fx sc sched (init sc).
Proof. exact close_result_irrelevant_thm. Qed.
Print Assumptions close_result_irrelevant.

Theorem closed_flag_independent_of_close_result : forall fx sc b sched,
  closed (run fx (with_close_err b sc) sched (init (with_close_err b sc))) = closed (run fx sc sched (init sc)).
Proof. exact closed_flag_independent_thm. Qed.
Print Assumptions closed_flag_independent_of_close_result.

(* the code as found did NOT have the property: a failing result callback with the watcher deciding between
   close(done) and errgroup's cancel leaves the client open in the middle of the result stream (witness_7);
   an exception arriving while a block is encoded leaves that block queued ahead of the next request
   (witness_8); a partial write coinciding with an exception leaves an open client in the middle of a packet
   (witness_9) *)
Theorem do_safe_refuted :
  ~ (forall sc sched s, wf_prog true (sc_prog sc) = true -> s = run as_found sc sched (init sc) ->
       terminal s = true -> failed s = true -> safe s).
Proof. exact do_safe_refuted_thm. Qed.
Print Assumptions do_safe_refuted.

Theorem do_safe_refuted_stale_block : let s := run as_found sc_w8 sch_w8 (init sc_w8) in
  wf_prog true (sc_prog sc_w8) = true /\ terminal s = true /\ failed s = true /\ closed s = false /\ pend_chunks s = [false; true].
Proof. exact witness_8. Qed.
Print Assumptions do_safe_refuted_stale_block.

Theorem do_safe_refuted_partial_write : let s := run as_found sc_w9 sch_w9 (init sc_w9) in
  wf_prog true (sc_prog sc_w9) = true /\ terminal s = true /\ failed s = true /\ closed s = false /\ out_boundary (wire s) = false.
Proof. exact witness_9. Qed.
Print Assumptions do_safe_refuted_partial_write.

(* finding 22, repaired by 8cdbcdc (the switch fx_exc_only_from_packet; [before_8cdbcdc] = every repair but that one):
   a callback that fails with an error wrapping a *ch.Exception ([PContX]; for the code as it is now just a failing
   callback, covered by do_safe like any other) was taken for the server's exception - Do returned with the client
   open in the middle of the server's stream, no Cancel sent *)
Theorem do_safe_refuted_callback_exception :
  ~ (forall sc sched s, wf_prog true (sc_prog sc) = true -> s = run before_8cdbcdc sc sched (init sc) ->
       terminal s = true -> failed s = true -> safe s).
Proof. exact do_safe_refuted_callback_exception_thm. Qed.
Print Assumptions do_safe_refuted_callback_exception.

Theorem do_safe_refuted_callback_exception_witness : let s := run before_8cdbcdc sc_w22 sch_w22 (init sc_w22) in
  wf_prog true (sc_prog sc_w22) = true /\ terminal s = true /\ failed s = true /\ closed s = false /\
  ended s = false /\ count_cancel (wire s) = 0.
Proof. exact witness_22. Qed.
Print Assumptions do_safe_refuted_callback_exception_witness.

(* non-vacuity: the three witness schedules, on the code as it is now, end in a failed query with the client
   closed (7, 9) or open and clean (8) *)
Example c04_witness :
  let s7 := run all_fixed sc_w7 sch_w7 (init sc_w7) in
  let s8 := run all_fixed sc_w8 sch_w8 (init sc_w8) in
  let s9 := run all_fixed sc_w9 sch_w9 (init sc_w9) in
  (terminal s7, failed s7, closed s7) = (true, true, true) /\
  (terminal s8, failed s8, closed s8, gotexc s8, pend_chunks s8, out_boundary (wire s8)) = (true, true, false, true, [], true) /\
  (terminal s9, failed s9, closed s9, wire s9) = (true, true, true, [WChunk true; WChunk false; WPart]).
Proof. vm_compute. repeat split; reflexivity. Qed.

(* non-vacuity of the above: the query whose encoding fails ends failed and closed, having written only the Cancel
   packet of the cancel-watch goroutine (the sender's failure ends the group's context), nothing is pending and
   the next request is rejected; with a Close that reports an error the outcome is the same *)
Example c04_witness_sendquery_fails :
  let s := run all_fixed sc_wx sch_wx (init sc_wx) in
  let s' := run all_fixed (with_close_err true sc_wx) sch_wx (init (with_close_err true sc_wx)) in
  (terminal s, failed s, closed s, wire s, pend_chunks s, fst (next_request s)) = (true, true, true, [WCancel], [], ReqRejected) /\
  (terminal s', failed s', closed s', nclose s') = (true, true, true, 1).
Proof. vm_compute. split; reflexivity. Qed.

(* the schedule of finding 22 on the code as it is now: cancelled and closed *)
Example c04_witness_callback_exception :
  let s := run all_fixed sc_w22 sch_w22 (init sc_w22) in
  (terminal s, failed s, closed s, gotexc s, wire s) = (true, true, true, false, [WChunk true; WCancel]).
Proof. vm_compute. reflexivity. Qed.
