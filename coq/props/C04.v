(* C04 — A failed query leaves the client closed or exactly at a packet boundary.
   Nothing but statements closed by [exact], each followed by Print Assumptions.

   Vocabulary (coq/model/DoLTS.v):
     scen        a scenario: the sender's straight-line program (what sendQuery / sendInput do for this query:
                 closed check, encodes, column gates, flushes, the colInfo wait, context checks, OnInput calls),
                 the server script (packets readable once the client has written [avail] chunks), a cut of the
                 server stream between or inside packets, a client Write that fails with or without a partial write;
     run fx sc sched s   the state after the scheduler choices [sched : list (who * bool)] over the sender (GS),
                 receiver (GR), cancel-watch (GW), the goroutine that called Do (GM: g.Wait, then queryFailed)
                 and the environment step "the caller's context ends" (GEnv); the boolean resolves a read that
                 times out and a select with two ready cases.  Steps of a blocked or finished goroutine are no-ops,
                 so EVERY list is a schedule;
     all_fixed   the code as it is now; as_found: before the commits de4f5b3 899c6af 4c3f9a3;
     wf_prog     the sender's program leaves the writer empty or ending a packet at every flush (true of every
                 program [compile] produces: compile_is_wf);
     terminal    Do has returned; failed: with an error;
     clean       nothing encoded is waiting to be sent, the receiver stopped exactly after a packet, that packet
                 ended the query on the server's side, and what was written ends at a packet boundary;
     safe        closed \/ clean. *)
From CH Require Import model.DoLTS proofs.DoLTSProofs proofs.DoLTSProofs2.

(* every scenario, every fault, EVERY schedule: when Do has returned an error, the client is closed or clean *)
Theorem do_safe : forall sc sched s,
  wf_prog true (sc_prog sc) = true ->
  s = run all_fixed sc sched (init sc) ->
  terminal s = true -> failed s = true -> safe s.
Proof. exact do_safe_thm. Qed.
Print Assumptions do_safe.

(* sharper: an OPEN client after a failed query is possible only when the server itself ended the query with
   an exception that was decoded completely *)
Theorem do_open_only_after_exception : forall sc sched s,
  wf_prog true (sc_prog sc) = true ->
  s = run all_fixed sc sched (init sc) ->
  terminal s = true -> failed s = true ->
  closed s = true \/ (gotexc s = true /\ clean s).
Proof. exact do_safe_strong. Qed.
Print Assumptions do_open_only_after_exception.

(* the scenarios of the real client (select / insert / streaming insert, compressed or not, with or without a
   gate column, any OnInput history) satisfy the hypothesis wf_prog *)
Theorem compile_is_wf : forall k comp gate rows0 rounds, wf_prog true (compile k comp gate rows0 rounds) = true.
Proof. exact compile_wf. Qed.
Print Assumptions compile_is_wf.

(* a closed client rejects the next request, and Do itself, without any connection step (the state is unchanged) *)
Theorem closed_rejects : forall s, closed s = true ->
  next_request s = (ReqRejected, s) /\ do_entry_rejects s = true.
Proof. exact closed_rejects_thm. Qed.
Print Assumptions closed_rejects.

(* closed is set once: it never goes back, whatever the configuration, scenario and schedule ... *)
Theorem closed_stays : forall fx sc sched s, closed s = true -> closed (run fx sc sched s) = true.
Proof. exact closed_stays_thm. Qed.
Print Assumptions closed_stays.

(* ... and the connection is closed exactly once iff the client is closed *)
Theorem close_once : forall sc sched s,
  wf_prog true (sc_prog sc) = true -> s = run all_fixed sc sched (init sc) ->
  nclose s = if closed s then 1 else 0.
Proof. exact close_once_thm. Qed.
Print Assumptions close_once.

(* the next request on an open client after a failed query: exactly its own packet goes out first (nothing
   encoded for the failed query is sent), and the outbound stream is again at a packet boundary *)
Theorem next_request_clean : forall sc sched s,
  wf_prog true (sc_prog sc) = true ->
  s = run all_fixed sc sched (init sc) ->
  terminal s = true -> failed s = true -> closed s = false ->
  fst (next_request s) = ReqWrote [WChunk true] /\
  wire (snd (next_request s)) = wire s ++ [WChunk true] /\
  out_boundary (wire (snd (next_request s))) = true /\
  pend_chunks (snd (next_request s)) = [].
Proof. exact next_request_clean_thm. Qed.
Print Assumptions next_request_clean.

(* "the call returns": PARTIAL.  What is proved is termination of the model: a variant [mu] that no step
   increases, except that a read deadline firing adds at most one; hence along any schedule the variant is bounded
   by its initial value plus the number of read timeouts ... *)
Theorem do_terminates_partial : forall fx sc sched s,
  mu sc (run fx sc sched s) <= mu sc s + timeouts fx sc sched s.
Proof. exact measure_run_thm. Qed.
Print Assumptions do_terminates_partial.

(* ... and progress: while Do has not returned, some goroutine has a step that strictly decreases the variant,
   unless all that is left waits for the network (the receiver sits in a Read for which nothing has arrived: its
   armed deadline will fire) or for the caller (the receiver is handing a further schema block to a sender that no
   longer listens; only the end of the caller's context ends that wait).  [pinv] holds in every reachable state of
   a scenario whose program waits for colInfo only if the query is an INSERT (pinv_reachable).
   NOT proved: a bound in seconds; that every fair scheduler of the Go runtime picks the decreasing steps. *)
Theorem do_progress_partial : forall fx sc s,
  pinv sc s -> terminal s = false ->
  (exists g alt, is_timeout g alt s = false /\ mu sc (step fx sc g alt s) < mu sc s) \/
  (rmd s = RRead /\ next_read sc s = RdBlock) \/
  (rmd s = RSendInfo /\ ci_item s = true /\ cancelled s = false).
Proof. exact progress_thm. Qed.
Print Assumptions do_progress_partial.

Theorem pinv_reachable : forall fx sc sched,
  (has_wait (sc_prog sc) = true -> sc_insert sc = true) -> pinv sc (run fx sc sched (init sc)).
Proof. exact pinv_run. Qed.
Print Assumptions pinv_reachable.

(* the code as found did NOT have the property: a failing result callback with the watcher deciding between
   close(done) and errgroup's cancel leaves the client open in the middle of the result stream (witness_7);
   an exception arriving while a block is encoded leaves that block queued ahead of the next request
   (witness_8); a partial write coinciding with an exception leaves an open client in the middle of a packet
   (witness_9) *)
Theorem do_safe_refuted :
  ~ (forall sc sched s, wf_prog true (sc_prog sc) = true -> s = run as_found sc sched (init sc) ->
       terminal s = true -> failed s = true -> safe s).
Proof. exact do_safe_refuted_thm. Qed.
Print Assumptions do_safe_refuted.

Theorem do_safe_refuted_stale_block : let s := run as_found sc_w8 sch_w8 (init sc_w8) in
  wf_prog true (sc_prog sc_w8) = true /\ terminal s = true /\ failed s = true /\ closed s = false /\ pend_chunks s = [false; true].
Proof. exact witness_8. Qed.
Print Assumptions do_safe_refuted_stale_block.

Theorem do_safe_refuted_partial_write : let s := run as_found sc_w9 sch_w9 (init sc_w9) in
  wf_prog true (sc_prog sc_w9) = true /\ terminal s = true /\ failed s = true /\ closed s = false /\ out_boundary (wire s) = false.
Proof. exact witness_9. Qed.
Print Assumptions do_safe_refuted_partial_write.

(* non-vacuity: the three witness schedules, on the code as it is now, end in a failed query with the client
   closed (7, 9) or open and clean (8) *)
Example c04_witness :
  let s7 := run all_fixed sc_w7 sch_w7 (init sc_w7) in
  let s8 := run all_fixed sc_w8 sch_w8 (init sc_w8) in
  let s9 := run all_fixed sc_w9 sch_w9 (init sc_w9) in
  (terminal s7, failed s7, closed s7) = (true, true, true) /\
  (terminal s8, failed s8, closed s8, gotexc s8, pend_chunks s8, out_boundary (wire s8)) = (true, true, false, true, [], true) /\
  (terminal s9, failed s9, closed s9, wire s9) = (true, true, true, [WChunk true; WChunk false; WPart]).
Proof. vm_compute. repeat split; reflexivity. Qed.
