(* C13 — the handshake negotiates min(client, server) revision and fails cleanly.
   Nothing but statements closed by [exact], each followed by Print Assumptions, and one
   non-vacuity example.  Model: model/Handshake.v (mirrors handshake.go, client.go Connect / Dial /
   packetTimeout / exception, ping.go, the revision-dependent parts of query.go).
   Time is an abstract clock; "before the timeout" is strict.  What is observed rather than
   proved (real time) is listed in checks/c13.py. *)
From CH Require Import model.Handshake proofs.PrimProofs proofs.FieldsProofs proofs.MessagesProofs proofs.HandshakeProofs.
From CH Require Import gen.Features gen.Codes gen.Consts.
Open Scope N_scope.

(* ---- success --------------------------------------------------------------------------------
   For every build info, options (any read timeout, any credentials / database / quota key / client
   name strings, any revision), local address, well-formed server hello [h] (any revision, also
   one above or below the client's), any segmentation of the answer into chunks and any trailing
   bytes [rest]: if the server writes its hello with the fields the CLIENT's revision has, and the
   last chunk is sent before the handshake timeout, then Connect yields a client with
     revision = min(client, server),
     ServerInfo() = the hello as sent,
     bytes written = ClientHello, followed by the quota key IFF FeatureAddendum <= revision,
     the bytes behind the hello still unread, the connection not closed. *)
Theorem handshake_ok : forall bi o addr h chunks tl rest,
  let o' := set_defaults o in
  hello_ok h = true ->
  payload chunks = encode_ServerHello (vN (o_rev o')) (sh_fields h) ++ rest ->
  total_gap chunks < hs_deadline o ->
  exists c,
    connect bi o addr {| p_chunks := chunks ; p_tail := tl |} =
      {| r_out := Connected c ;
         r_wrote := encode_ClientHello (hello_fields bi o') ++
                    (if feature_in FeatureAddendum (c_ver c) then put_str (o_quota o) else []) ;
         r_closed := TriNo |} /\
    c_ver c = Z.min (o_rev o') (sh_revision h) /\
    server_info c = sh_gated (vN (o_rev o')) h /\
    c_info c = hello_fields bi o' /\
    c_in c = rest /\ c_closed c = false /\ c_quota c = o_quota o /\ c_rt c = o_rt o' /\ c_addr c = addr.
Proof. exact handshake_ok_lemma. Qed.
Print Assumptions handshake_ok.

(* obligation on the regenerated feature table: the addendum is the quota key, so a revision that
   has the addendum has the key (otherwise an empty addendum would be "sent") *)
Theorem quota_key_not_after_addendum : FeatureQuotaKey <= FeatureAddendum.
Proof. exact quota_le_addendum. Qed.
Print Assumptions quota_key_not_after_addendum.

(* the wait for the hello is bounded by the handshake timeout alone: whatever the per-packet read
   timeout, the deadline of that read is the deadline of the handshake context *)
Theorem hello_bounded_by_handshake_timeout : forall hd,
  packet_deadline hello_timeout 0 (Some hd) = Some hd.
Proof. exact hello_deadline. Qed.
Print Assumptions hello_bounded_by_handshake_timeout.

(* everything sent before a deadline is read, however it is segmented *)
Theorem sent_before_deadline_is_read : forall d cs t,
  t + total_gap cs < d -> arrived (Some d) t cs = payload cs.
Proof. exact arrived_all. Qed.
Print Assumptions sent_before_deadline_is_read.

(* ---- failure --------------------------------------------------------------------------------
   Never a client without a hello: whatever the peer does, if Connect yields a client then, before
   the handshake timeout, a packet code with the Hello value arrived, followed by a hello that
   decodes at the client's revision; and the client is exactly the one that hello defines. *)
Theorem connected_needs_hello : forall bi o addr p c,
  r_out (connect bi o addr p) = Connected c ->
  let o' := set_defaults o in
  exists n body fs rest,
    0 < hs_deadline o /\
    uvarint (answer o p) = Ok n body /\ n mod 256 = Z.to_N ServerCodeHello /\
    decode_ServerHello (vN (o_rev o')) body = Ok fs rest /\
    c = mk_client bi o' addr fs rest.
Proof. exact connected_needs_hello_lemma. Qed.
Print Assumptions connected_needs_hello.

(* an exception (a chain of any length) is carried by the error, whole; only the hello was written *)
Theorem exception_carried : forall bi o addr p es rest,
  0 < hs_deadline o -> chain_ok es = true ->
  answer o p = code_byte ServerCodeException ++ concat (map encode_Exception es) ++ rest ->
  connect bi o addr p =
    {| r_out := Failed (HException es) ;
       r_wrote := encode_ClientHello (hello_fields bi (set_defaults o)) ; r_closed := TriNo |}.
Proof. exact exception_carried_lemma. Qed.
Print Assumptions exception_carried.

(* any other packet *)
Theorem other_packet_rejected : forall bi o addr p code body,
  0 < hs_deadline o ->
  packet (answer o p) = Ok code body ->
  code <> Z.to_N ServerCodeHello -> code <> Z.to_N ServerCodeException ->
  connect bi o addr p =
    {| r_out := Failed (HUnexpected code) ;
       r_wrote := encode_ClientHello (hello_fields bi (set_defaults o)) ; r_closed := TriNo |}.
Proof. exact other_packet_rejected_lemma. Qed.
Print Assumptions other_packet_rejected.

(* garbage, or nothing at all (cut, silence, an answer that comes too late): whatever does not start
   with a packet code fails, with an error that carries no exception *)
Theorem no_packet_rejected : forall bi o addr p,
  is_ok (packet (answer o p)) = false ->
  exists e, r_out (connect bi o addr p) = Failed e /\
            r_wrote (connect bi o addr p) =
              (if 0 <? hs_deadline o then encode_ClientHello (hello_fields bi (set_defaults o)) else []) /\
            forall es, e <> HException es.
Proof. exact no_packet_rejected_lemma. Qed.
Print Assumptions no_packet_rejected.

(* a hello cut short at any byte *)
Theorem truncated_hello_rejected : forall bi o addr p h pre suf,
  0 < hs_deadline o -> hello_ok h = true ->
  encode_fields (vN (o_rev (set_defaults o))) L_ServerHello (sh_fields h) = pre ++ suf -> suf <> [] ->
  answer o p = code_byte ServerCodeHello ++ pre ->
  exists e, connect bi o addr p =
    {| r_out := Failed e ; r_wrote := encode_ClientHello (hello_fields bi (set_defaults o)) ;
       r_closed := r_closed (connect bi o addr p) |} /\ forall es, e <> HException es.
Proof. exact truncated_hello_rejected_lemma. Qed.
Print Assumptions truncated_hello_rejected.

(* silence until the handshake timeout *)
Theorem silence_times_out : forall bi o addr p,
  0 < hs_deadline o -> answer o p = [] -> p_tail p = TStall ->
  connect bi o addr p =
    {| r_out := Failed HTimeout ; r_wrote := encode_ClientHello (hello_fields bi (set_defaults o)) ; r_closed := TriAny |}.
Proof. exact silence_times_out_lemma. Qed.
Print Assumptions silence_times_out.

(* a hello whose first byte is sent at or after the timeout is silence *)
Theorem late_answer_is_none : forall o g b cs tl,
  hs_deadline o <= g -> answer o {| p_chunks := (g, b) :: cs ; p_tail := tl |} = [].
Proof. exact late_answer_empty. Qed.
Print Assumptions late_answer_is_none.

(* the connection cut before any answer *)
Theorem cut_rejected : forall bi o addr g,
  g < hs_deadline o ->
  connect bi o addr {| p_chunks := [] ; p_tail := TCut g |} =
    {| r_out := Failed HEof ; r_wrote := encode_ClientHello (hello_fields bi (set_defaults o)) ; r_closed := TriNo |}.
Proof. exact cut_rejected_lemma. Qed.
Print Assumptions cut_rejected.

(* Dial: same outcome and bytes as Connect, and a connection the library dialed itself is closed
   whenever the handshake fails, for whatever reason *)
Theorem dial_outcome : forall bi o addr p,
  r_out (dial bi o addr p) = r_out (connect bi o addr p) /\
  r_wrote (dial bi o addr p) = r_wrote (connect bi o addr p).
Proof. exact dial_outcome_lemma. Qed.
Print Assumptions dial_outcome.

Theorem dial_failure_closes : forall bi o addr p e,
  r_out (dial bi o addr p) = Failed e -> r_closed (dial bi o addr p) = TriYes.
Proof. exact dial_failure_closes_lemma. Qed.
Print Assumptions dial_failure_closes.

(* ---- after the handshake ----------------------------------------------------------------------
   Do refuses parameters on a revision without them, before writing anything *)
Theorem no_params_on_old : forall c q inb,
  c_closed c = false -> cq_params q <> [] -> (c_ver c < Z.of_N FeatureParameters)%Z ->
  do_query c q inb = {| d_end := DoNoParams ; d_wrote := [] ; d_events := [] ; d_left := c_in c ++ inb |}.
Proof. exact no_params_on_old_lemma. Qed.
Print Assumptions no_params_on_old.

(* every later encode goes through the client's revision ... *)
Theorem later_query_uses_version : forall c q inb,
  guard_ok c q = true ->
  d_wrote (do_query c q inb) = encode_Query (vN (c_ver c)) (mk_query c q) ++ blank_block (vN (c_ver c)).
Proof. exact query_written_at_version. Qed.
Print Assumptions later_query_uses_version.

(* ... so a peer speaking that revision parses it exactly: the query with the fields of that
   revision, then the empty data block, nothing left over *)
Theorem later_query_parsed_at_version : forall c q,
  let v := vN (c_ver c) in
  query_ok (mk_query c q) = true -> gate v FeatureSettingsSerializedAsStrings = true ->
  exists b b2,
    query_bytes c q = Z.to_N ClientCodeQuery :: b /\
    decode_Query v b = Ok (project_Query v (mk_query c q)) (Z.to_N ClientCodeData :: b2) /\
    blank_parse v b2 = Ok (project v L_ClientData [FStr []], (blank_block_info, 0%Z, 0%Z)) [].
Proof. exact query_parsed_at_version. Qed.
Print Assumptions later_query_parsed_at_version.

(* and every later decode: a Progress packet written at the client's revision is read with exactly
   the fields of that revision, and the stream ends where the server ended it *)
Theorem later_progress_decoded_at_version : forall c q xs,
  guard_ok c q = true -> c_in c = [] -> fields_typed L_Progress xs = true ->
  let r := do_query c q (code_byte ServerCodeProgress ++ encode_Progress (vN (c_ver c)) xs ++
                         code_byte ServerCodeEndOfStream) in
  d_end r = DoOk /\ d_events r = [EvProgress (project (vN (c_ver c)) L_Progress xs)] /\ d_left r = [].
Proof. exact progress_decoded_at_version. Qed.
Print Assumptions later_progress_decoded_at_version.

(* end to end: after a successful handshake the client speaks min(client, server): its queries are
   encoded at that revision, parameters are refused below FeatureParameters, progress is decoded
   at that revision *)
Theorem negotiated_revision_is_spoken : forall bi o addr h chunks tl,
  let o' := set_defaults o in
  let v := Z.min (o_rev o') (sh_revision h) in
  hello_ok h = true ->
  payload chunks = encode_ServerHello (vN (o_rev o')) (sh_fields h) ->
  total_gap chunks < hs_deadline o ->
  exists c,
    r_out (connect bi o addr {| p_chunks := chunks ; p_tail := tl |}) = Connected c /\
    (forall q inb, cq_params q = [] \/ (Z.of_N FeatureParameters <= v)%Z ->
       d_wrote (do_query c q inb) = encode_Query (vN v) (mk_query c q) ++ blank_block (vN v)) /\
    (forall q inb, cq_params q <> [] -> (v < Z.of_N FeatureParameters)%Z ->
       d_end (do_query c q inb) = DoNoParams /\ d_wrote (do_query c q inb) = []) /\
    (forall q xs, cq_params q = [] \/ (Z.of_N FeatureParameters <= v)%Z ->
       fields_typed L_Progress xs = true ->
       let r := do_query c q (code_byte ServerCodeProgress ++ encode_Progress (vN v) xs ++
                              code_byte ServerCodeEndOfStream) in
       d_end r = DoOk /\ d_events r = [EvProgress (project (vN v) L_Progress xs)]).
Proof. exact negotiated_revision_spoken_lemma. Qed.
Print Assumptions negotiated_revision_is_spoken.

(* a traced caller context (a valid OpenTelemetry span in the context given to Do): below the revision that
   introduced the field nothing of the span is written - the bytes of the query are those of the same query
   without a span; from that revision on the span is part of the client info the server decodes (C17's
   Query_roundtrip over mk_query) *)
Theorem span_absent_before_opentelemetry : forall c q sp,
  gate (vN (c_ver c)) FeatureOpenTelemetry = false ->
  query_bytes c (set_span q sp) = query_bytes c q.
Proof. exact query_bytes_span_blind. Qed.
Print Assumptions span_absent_before_opentelemetry.

(* Feature.In on a Go int (possibly negative, as a hostile hello can make it) is the gate the
   message codecs apply at that revision *)
Theorem feature_in_is_gate : forall f v, 0 < f -> feature_in f v = gate (vN v) f.
Proof. exact feature_in_gate. Qed.
Print Assumptions feature_in_is_gate.

(* the fuelled loops of the model are the unbounded Go loops: reading an exception chain never runs
   out of fuel, and no handshake fails for lack of it *)
Theorem exception_loop_total : forall s, client_exception s <> Err EFuel.
Proof. exact client_exception_never_fuel. Qed.
Print Assumptions exception_loop_total.

Theorem handshake_never_out_of_fuel : forall bi o addr p, r_out (connect bi o addr p) <> Failed (HBad EFuel).
Proof. exact connect_never_fuel. Qed.
Print Assumptions handshake_never_out_of_fuel.

(* ---- non-vacuity --------------------------------------------------------------------------------
   default client revision (54460) against a server at 54459, default database and user, the hello
   in two segments 150 ms and 210 ms into a 400 ms handshake timeout with a 50 ms read timeout:
   the hypotheses of handshake_ok hold, the client is at 54459, the addendum (quota key) is sent,
   parameters are accepted; against a server at 54458 they are refused; an authentication
   exception through Dial is carried and the connection closed. *)
Definition ex_bi : buildinfo := {| b_name := [] ; b_major := 0 ; b_minor := 0 ; b_patch := 0 |}.
Definition ex_opts : options :=
  {| o_rev := 0 ; o_db := [] ; o_user := [] ; o_pw := [112; 119] ; o_quota := [113; 107] ; o_cname := [] ;
     o_rt := 50000000 ; o_ht := 400000000 |}.
Definition ex_hello (rev : Z) : server_hello :=
  {| sh_name := [67; 72] ; sh_major := 23 ; sh_minor := 8 ; sh_revision := rev ;
     sh_tz := [85; 84; 67] ; sh_display := [100] ; sh_patch := 3 |}.
Definition ex_peer (rev : Z) : peer :=
  let b := encode_ServerHello 54460 (sh_fields (ex_hello rev)) in
  {| p_chunks := [(150000000, firstn 1 b); (60000000, skipn 1 b)] ; p_tail := TStall |}.
Definition ex_exc : list fv := [FZ 516; FStr [68; 66]; FStr [98; 97; 100]; FStr []; FB false].
Definition ex_q : cquery :=
  {| cq_id := [113] ; cq_body := [83] ; cq_quota := [] ; cq_inituser := [] ; cq_settings := [] ;
     cq_params := [([112], [49])] ; cq_span := None |}.
Definition ver_of (r : hs_result) : Z := match r_out r with Connected c => c_ver c | Failed _ => 0%Z end.
Definition do_end_of (r : hs_result) : do_end :=
  match r_out r with Connected c => d_end (do_query c ex_q [Z.to_N ServerCodeEndOfStream]) | Failed _ => DoFail end.

Example handshake_nonvacuous :
  hello_ok (ex_hello 54459) = true /\
  payload (p_chunks (ex_peer 54459)) = encode_ServerHello (vN (o_rev (set_defaults ex_opts))) (sh_fields (ex_hello 54459)) ++ [] /\
  total_gap (p_chunks (ex_peer 54459)) < hs_deadline ex_opts /\
  ver_of (connect ex_bi ex_opts [] (ex_peer 54459)) = 54459%Z /\
  r_wrote (connect ex_bi ex_opts [] (ex_peer 54459)) =
    encode_ClientHello (hello_fields ex_bi (set_defaults ex_opts)) ++ put_str [113; 107] /\
  do_end_of (connect ex_bi ex_opts [] (ex_peer 54459)) = DoOk /\
  ver_of (connect ex_bi ex_opts [] (ex_peer 54457)) = 54457%Z /\
  r_wrote (connect ex_bi ex_opts [] (ex_peer 54457)) = encode_ClientHello (hello_fields ex_bi (set_defaults ex_opts)) /\
  do_end_of (connect ex_bi ex_opts [] (ex_peer 54457)) = DoNoParams /\
  dial ex_bi ex_opts [] {| p_chunks := [(1000000, code_byte ServerCodeException ++ encode_Exception ex_exc)] ; p_tail := TCut 0 |} =
    {| r_out := Failed (HException [ex_exc]) ;
       r_wrote := encode_ClientHello (hello_fields ex_bi (set_defaults ex_opts)) ; r_closed := TriYes |}.
Proof. vm_compute. repeat split; reflexivity. Qed.
