(* C03 — Results, telemetry and exceptions are delivered exactly once, in order.
   Nothing but statements closed by [exact], each followed by Print Assumptions, and one example.

   Model: coq/model/Recv.v ([recv]: the receiver goroutine of Client.Do over the bytes the server
   sent; [encode_packets]: the server; [expected_trace]/[expected_outcome]: what the callbacks must
   see and what Do must return, computed from the script alone).  The quantifiers:
     c      protocol revision, compression on/off, build of the codecs            (all)
     hs     which of the 7 callbacks are set and which invocation of each fails    (all)
     tg     the Result binding: nil / bound columns / Results.Auto() / empty        (all)
     ps     the script: Data/Totals blocks of any schema and size, empty blocks, Progress, Profile,
            TableColumns, Log and ProfileEvents blocks, exception chains of any depth, EndOfStream
            (all lists satisfying [script_ok]: values in range, every block fits the binding)
     rest   whatever follows on the wire
   Premises about the environment (the theorems are stated for every instance):
     conflicts_refl   ColumnType.Conflicts is irreflexive (its first line)
     codec_rt         decompressing what the compressor produced gives back the block
   and, inside [script_ok], that a bound column's Infer accepts the block's type string ([accepts]) /
   ColAuto.Infer knows it ([fits] for Auto), that a compressed block fits the frame limits, and that
   a compressed block is one frame (encode_packets writes one frame per block, as compress.Writer does).
   The second half of this file ([..._frames], Section EnvFrames) lifts every delivery theorem to compressed
   blocks cut into ANY frames: [wire_script] allows, for every compressed block, every list of frames - any
   number, any cut points, empty payloads in between, a method of its own per frame - whose decompressed
   payloads concatenate to the block's encoding. *)
From CH Require Import model.Recv proofs.ColumnsProofs proofs.CompressProofs proofs.RecvProofs.
From CH Require Import proofs.PrimProofs proofs.ParserStable proofs.RecvProofs2.
Open Scope N_scope.
Open Scope list_scope.

Section Env.
  Variable conflicts : bytes -> bytes -> bool.
  Variable infer_target : ty -> bytes -> option ty.
  Variable infer_auto : bytes -> option ty.
  Variable H : bytes -> N * N.
  Variable comp : method -> bytes -> option bytes.
  Variable decomp : N -> bytes -> N -> option bytes.
  Variable meth : method.
  Hypothesis conflicts_refl : forall s, conflicts s s = false.
  Hypothesis codec : codec_rt comp decomp.

  Notation recv := (recv conflicts infer_target infer_auto H decomp).
  Notation encode_packets := (encode_packets H comp meth).
  Notation script_ok := (script_ok infer_target infer_auto H comp meth).

  (* the callback trace is exactly the expected one — one OnResult per Data/Totals block that is not
     the empty block, in order, each with the bound columns holding that block (prepared); every
     Progress / Profile / Log / ProfileEvents packet in order — up to the first terminating event
     (failing callback, exception, EndOfStream, default-handler rule), and Do's receiver returns that
     event; a script with no terminating event ends in the read error on the closed connection *)
  Theorem recv_trace : forall c hs tg ps stream rest,
    script_ok c tg ps -> encode_packets c ps = Some stream ->
    (expected_outcome c hs tg ps = None -> rest = []) ->
    exists st r,
      recv c hs tg (stream ++ rest) =
        (match expected_outcome c hs tg ps with Some o => o | None => OErr (RDecode EEof) end, st, r) /\
      r_trace st = expected_trace c hs tg ps.
  Proof. exact (recv_full conflicts infer_target infer_auto H comp decomp meth conflicts_refl codec). Qed.

  (* ... and when Do returns, the bound Result columns are those of the last Data/Totals block *)
  Theorem recv_bound_columns : forall c hs tg ps stream rest o,
    script_ok c tg ps -> encode_packets c ps = Some stream ->
    expected_outcome c hs tg ps = Some o ->
    exists st r, recv c hs tg (stream ++ rest) = (o, st, r) /\
      r_trace st = expected_trace c hs tg ps /\
      r_tg st = s_tg (snd (spec_run c hs (sst_init tg) ps)).
  Proof. exact (recv_refines_spec conflicts infer_target infer_auto H comp decomp meth conflicts_refl codec). Qed.

  (* nil exactly when the script reaches EndOfStream before any other terminating event: no callback
     failed, no exception, the default handler did not meet a second block after a non-empty one *)
  Theorem recv_nil_iff : forall c hs tg ps stream rest,
    script_ok c tg ps -> encode_packets c ps = Some stream ->
    (expected_outcome c hs tg ps = None -> rest = []) ->
    (fst (fst (recv c hs tg (stream ++ rest))) = ONil <->
     exists ps1 ps2, ps = ps1 ++ PEnd :: ps2 /\ expected_outcome c hs tg ps1 = None).
  Proof. exact (recv_nil_iff_thm conflicts infer_target infer_auto H comp decomp meth conflicts_refl codec). Qed.

  (* a server exception with nested causes of any depth: the returned error carries the top fields
     and the flattened Next list as sent; errors.Is matches exactly the codes of the chain, IsCode
     the top code *)
  Theorem exception_chain : forall c hs tg ps1 top next ps2 stream rest,
    script_ok c tg (ps1 ++ PException top next :: ps2) ->
    encode_packets c (ps1 ++ PException top next :: ps2) = Some stream ->
    expected_outcome c hs tg ps1 = None ->
    let e := {| x_top := top ; x_next := next |} in
    (exists st r, recv c hs tg (stream ++ rest) = (OExc e, st, r) /\
                  r_trace st = expected_trace c hs tg ps1) /\
    (forall code, errors_is e code = true <-> In code (map e_code (top :: next))) /\
    (forall code, is_code e [code] = true <-> e_code top = code).
  Proof. exact (exception_chain_thm conflicts infer_target infer_auto H comp decomp meth conflicts_refl codec). Qed.
End Env.
Print Assumptions recv_trace.
Print Assumptions recv_bound_columns.
Print Assumptions recv_nil_iff.
Print Assumptions exception_chain.

(* the specification itself returns nil only through EndOfStream *)
Theorem spec_nil_only_by_end_of_stream : forall c hs ps ss,
  fst (spec_run c hs ss ps) = Some ONil <->
  exists ps1 ps2, ps = ps1 ++ PEnd :: ps2 /\ fst (spec_run c hs ss ps1) = None.
Proof. exact spec_nil_iff. Qed.
Print Assumptions spec_nil_only_by_end_of_stream.

(* an exception chain of any depth is read back as sent *)
Theorem exception_chain_read : forall top next rest,
  exc_ok top -> Forall exc_ok next ->
  client_exception (encode_chain top next ++ rest) = Ok {| x_top := top ; x_next := next |} rest.
Proof. exact client_exception_rt. Qed.
Print Assumptions exception_chain_read.

(* non-vacuity: an instance of the environment (identity "codec", Conflicts = string inequality) and a
   script — header block, a 2-row block, Progress, a Totals block, an exception with one nested cause,
   then packets that must not be delivered — meet every hypothesis; the model run by computation,
   uncompressed and compressed, makes the 4 expected callbacks, returns the chain and leaves the
   Totals block in the bound column (which held stale rows before) *)
Definition ex_conf (a b : bytes) : bool := negb (bytes_eqb a b).
Definition ex_inf (t : ty) (_ : bytes) : option ty := Some t.
Definition ex_auto (_ : bytes) : option ty := None.
Definition ex_H (_ : bytes) : N * N := (7, 9).
Definition ex_comp (_ : method) (p : bytes) : option bytes := Some p.
Definition ex_decomp (_ : N) (p : bytes) (_ : N) : option bytes := Some p.
Definition ex_cfg (cmp : bool) : cfg := {| c_rev := 54460 ; c_comp := cmp ; c_build := Unsafe |}.
Definition ex_all : handlers :=
  let h := Some (fun _ : nat => true) in
  {| on_result := h ; on_progress := h ; on_profile := h ; on_pevents := h ; on_pevent := h ; on_logs := h ; on_log := h |}.
Definition ex_u8 : ty := TFix [85; 73; 110; 116; 56] 1.
Definition ex_col (vs : list N) : col := {| c_name := [97] ; c_ty := ex_u8 ; c_data := DFix vs |}.
Definition ex_info : block_info := {| bi_overflows := false ; bi_bucket := (-1)%Z |}.
Definition ex_e1 : exc := {| e_code := 241 ; e_name := [68; 66] ; e_msg := [109] ; e_stack := [] |}.
Definition ex_e2 : exc := {| e_code := 60 ; e_name := [68; 66] ; e_msg := [110] ; e_stack := [115] |}.
Definition ex_script : list packet :=
  [PBlock BData ex_info 0 [ex_col []]; PBlock BData ex_info 2 [ex_col [1; 255]];
   PProgress [FN 2; FN 2; FN 0; FN 0; FN 0; FN 5]; PBlock BTotals ex_info 1 [ex_col [3]];
   PException ex_e1 [ex_e2]; PProgress [FN 9; FN 9; FN 0; FN 0; FN 0; FN 0]; PEnd].
Definition ex_tg : rtarget := TgTyped [ex_col [42; 42; 42]].   (* stale rows from an earlier query *)

Example script_nonvacuous :
  (forall s, ex_conf s s = false) /\ codec_rt ex_comp ex_decomp /\
  script_ok ex_inf ex_auto ex_H ex_comp MLZ4 (ex_cfg false) ex_tg ex_script /\
  forall cmp, exists stream, encode_packets ex_H ex_comp MLZ4 (ex_cfg cmp) ex_script = Some stream /\
    let '(o, st, _) := recv ex_conf ex_inf ex_auto ex_H ex_decomp (ex_cfg cmp) ex_all ex_tg stream in
    o = OExc {| x_top := ex_e1 ; x_next := [ex_e2] |} /\ length (r_trace st) = 4%nat /\
    r_tg st = TgTyped [ex_col [3]] /\ r_trace st = expected_trace (ex_cfg cmp) ex_all ex_tg ex_script.
Proof.
  split; [intros s; unfold ex_conf; now rewrite bytes_eqb_refl|].
  split; [intros m p c _ [= <-]; reflexivity|].
  split.
  - assert (Hblk : forall tg k n vs, (k = BData \/ k = BTotals) -> blen vs = n -> Forall (fun v => v < 256) vs -> n <= 2 ->
              fits ex_inf ex_auto tg n [ex_col vs] ->
              packet_ok ex_inf ex_auto ex_H ex_comp MLZ4 (ex_cfg false) tg (PBlock k ex_info n [ex_col vs])).
    { intros tg k n vs Hk Hl Hv Hn Hfit. cbn [packet_ok].
      split; [unfold in_i32; cbn; lia|]. split; [assert (2 <= max_rows) by (vm_compute; discriminate); lia|].
      split; [vm_compute; discriminate|]. split; [|intros Hc; discriminate].
      exists [ex_col vs]. split; [|intros _; destruct Hk; subst k; exact Hfit].
      constructor; [|constructor]. unfold col_ok. cbn. repeat split; try assumption; reflexivity. }
    assert (Hacc : forall vs ws, Forall2 (accepts ex_inf) [ex_col vs] [ex_col ws]).
    { intros vs ws. constructor; [|constructor]. split; [right; reflexivity|reflexivity]. }
    cbn [script_ok ex_script].
    split; [apply Hblk; [now left|reflexivity|constructor|cbn; lia|apply Hacc]|].
    split; [apply Hblk; [now left|reflexivity|repeat constructor|cbn; lia|apply Hacc]|].
    split; [reflexivity|].
    split; [apply Hblk; [now right|reflexivity|repeat constructor|cbn; lia|apply Hacc]|].
    split; [split; [reflexivity|repeat constructor]|].
    split; [reflexivity|]. split; exact I.
  - intros [|]; (eexists; split; [vm_compute; reflexivity|]; vm_compute; repeat split).
Qed.

(* ======================================================================================================
   Compressed blocks made of several frames
   ====================================================================================================== *)
(* What the decompressing reader relies on: a decoder of a block answers "unexpected end of input" on every
   proper prefix of what it accepts (the reader then fetches the next frame and the decoder goes on), for
   every result binding - nil, typed columns of any type tree, Results.Auto, an empty Results - and every
   protocol revision and build.  [mono]: a successful decode did not look past what it consumed; [stable]: an
   error other than end-of-input and a crash do not depend on what follows either. *)
Theorem block_decoder_prefix_needs_more : forall conflicts infer_target infer_auto c tg pre suf a,
  block_parser conflicts infer_target infer_auto c tg (pre ++ suf) = Ok a [] -> suf <> [] ->
  2 * blen (pre ++ suf) + 4096 <= alloc_cap ->
  block_parser conflicts infer_target infer_auto c tg pre = Err EEof.
Proof.
  exact (fun cf it ia c tg pre suf a =>
           prefix_eof (block_parser cf it ia c tg) pre suf a
                      (proj1 (ms_block_parser cf it ia c tg)) (proj2 (ms_block_parser cf it ia c tg))).
Qed.
Print Assumptions block_decoder_prefix_needs_more.

Section EnvFrames.
  Variable conflicts : bytes -> bytes -> bool.
  Variable infer_target : ty -> bytes -> option ty.
  Variable infer_auto : bytes -> option ty.
  Variable H : bytes -> N * N.
  Variable comp : method -> bytes -> option bytes.
  Variable decomp : N -> bytes -> N -> option bytes.
  Hypothesis conflicts_refl : forall s, conflicts s s = false.
  Hypothesis codec : codec_rt comp decomp.

  Notation recv := (recv conflicts infer_target infer_auto H decomp).
  Notation recv_loop := (recv_loop conflicts infer_target infer_auto H decomp).
  Notation script_okF := (script_okF infer_target infer_auto).
  Notation wire_script := (wire_script H comp).

  (* the decompressing path of decodeBlock: ANY decoder with the two properties above, run over ANY list of
     admissible frames whose payloads concatenate to what it accepts (last payload not empty), returns its
     value, leaves nothing buffered in compress.Reader and the stream right behind the last frame *)
  Theorem compressed_block_any_framing : forall A c (p : parser A) a body payload rest,
    mono p -> stable p -> p body = Ok a [] -> c_comp c = true ->
    frames_of H comp body payload -> 2 * blen body + 4096 <= alloc_cap ->
    via H decomp c true p [] (payload ++ rest) = Ok (a, []) rest.
  Proof. exact (fun A => @via_frames H comp decomp codec A). Qed.

  (* recv_trace for every framing of every compressed block *)
  Theorem recv_trace_frames : forall c hs tg ps stream rest,
    script_okF c tg ps -> wire_script c ps stream ->
    (expected_outcome c hs tg ps = None -> rest = []) ->
    exists st r,
      recv c hs tg (stream ++ rest) =
        (match expected_outcome c hs tg ps with Some o => o | None => OErr (RDecode EEof) end, st, r) /\
      r_trace st = expected_trace c hs tg ps.
  Proof. exact (recv_fullF conflicts infer_target infer_auto H comp decomp conflicts_refl codec). Qed.

  (* recv_bound_columns for every framing; also: nothing is left in the decompressing reader *)
  Theorem recv_bound_columns_frames : forall c hs tg ps stream rest o,
    script_okF c tg ps -> wire_script c ps stream ->
    expected_outcome c hs tg ps = Some o ->
    exists st r, recv c hs tg (stream ++ rest) = (o, st, r) /\
      r_trace st = expected_trace c hs tg ps /\
      r_tg st = s_tg (snd (spec_run c hs (sst_init tg) ps)) /\ r_carry st = [].
  Proof. exact (recv_refines_specF conflicts infer_target infer_auto H comp decomp conflicts_refl codec). Qed.

  (* the stream is left at the packet boundary: after a script without terminating event the loop stands
     exactly in front of whatever follows, with the callbacks made, the last block bound and nothing buffered *)
  Theorem recv_packet_boundary_frames : forall c hs tg ps stream rest fuel,
    script_okF c tg ps -> wire_script c ps stream ->
    expected_outcome c hs tg ps = None -> (length ps < fuel)%nat ->
    exists st, r_carry st = [] /\ r_trace st = expected_trace c hs tg ps /\
      r_tg st = s_tg (snd (spec_run c hs (sst_init tg) ps)) /\
      recv_loop fuel c hs (st_init tg) (stream ++ rest) = recv_loop (fuel - length ps) c hs st rest.
  Proof. exact (recv_packet_boundaryF conflicts infer_target infer_auto H comp decomp conflicts_refl codec). Qed.

  Theorem recv_nil_iff_frames : forall c hs tg ps stream rest,
    script_okF c tg ps -> wire_script c ps stream ->
    (expected_outcome c hs tg ps = None -> rest = []) ->
    (fst (fst (recv c hs tg (stream ++ rest))) = ONil <->
     exists ps1 ps2, ps = ps1 ++ PEnd :: ps2 /\ expected_outcome c hs tg ps1 = None).
  Proof. exact (recv_nil_iffF conflicts infer_target infer_auto H comp decomp conflicts_refl codec). Qed.

  Theorem exception_chain_frames : forall c hs tg ps1 top next ps2 stream rest,
    script_okF c tg (ps1 ++ PException top next :: ps2) ->
    wire_script c (ps1 ++ PException top next :: ps2) stream ->
    expected_outcome c hs tg ps1 = None ->
    let e := {| x_top := top ; x_next := next |} in
    (exists st r, recv c hs tg (stream ++ rest) = (OExc e, st, r) /\
                  r_trace st = expected_trace c hs tg ps1) /\
    (forall code, errors_is e code = true <-> In code (map e_code (top :: next))) /\
    (forall code, is_code e [code] = true <-> e_code top = code).
  Proof. exact (exception_chainF conflicts infer_target infer_auto H comp decomp conflicts_refl codec). Qed.

  (* the executable framed server (model/Recv.v encode_packets_fr: every block cut after given byte counts, a
     method per frame) writes such a wire script *)
  Theorem framed_server_is_wire_script : forall c ps frs stream,
    encode_packets_fr H comp c ps frs = Some stream -> framings_ok H comp c ps frs -> wire_script c ps stream.
  Proof. exact (encode_packets_fr_wire H comp). Qed.
End EnvFrames.
Print Assumptions compressed_block_any_framing.
Print Assumptions recv_trace_frames.
Print Assumptions recv_bound_columns_frames.
Print Assumptions recv_packet_boundary_frames.
Print Assumptions recv_nil_iff_frames.
Print Assumptions exception_chain_frames.
Print Assumptions framed_server_is_wire_script.

(* non-vacuity: the script of [script_nonvacuous] with compression on; the 2-row block is cut into three frames
   (after 3 bytes: inside BlockInfo; after 12 more: inside the column header) with three different methods, the
   Totals block into four, one of them with an empty payload.  The hypotheses of the theorems hold, the bytes
   differ from the one-frame stream, and the model run by computation delivers the same 4 callbacks, the chain
   and the Totals block, with nothing left in the decompressing reader. *)
Definition ex_frs : list framing :=
  [([], MNone); ([(MLZ4, 3%nat); (MNone, 12%nat)], MZSTD); ([], MNone);
   ([(MZSTD, 5%nat); (MNone, 0%nat); (MLZ4, 7%nat)], MNone)].

Example frames_nonvacuous :
  script_okF ex_inf ex_auto (ex_cfg true) ex_tg ex_script /\
  framings_ok ex_H ex_comp (ex_cfg true) ex_script ex_frs /\
  exists stream, encode_packets_fr ex_H ex_comp (ex_cfg true) ex_script ex_frs = Some stream /\
    wire_script ex_H ex_comp (ex_cfg true) ex_script stream /\
    encode_packets ex_H ex_comp MLZ4 (ex_cfg true) ex_script <> Some stream /\
    let '(o, st, _) := recv ex_conf ex_inf ex_auto ex_H ex_decomp (ex_cfg true) ex_all ex_tg stream in
    o = OExc {| x_top := ex_e1 ; x_next := [ex_e2] |} /\ length (r_trace st) = 4%nat /\
    r_tg st = TgTyped [ex_col [3]] /\ r_carry st = [] /\
    r_trace st = expected_trace (ex_cfg true) ex_all ex_tg ex_script.
Proof.
  assert (Hok : script_okF ex_inf ex_auto (ex_cfg true) ex_tg ex_script).
  { assert (Hblk : forall tg k n vs, (k = BData \/ k = BTotals) -> blen vs = n -> Forall (fun v => v < 256) vs -> n <= 2 ->
              fits ex_inf ex_auto tg n [ex_col vs] ->
              packet_okF ex_inf ex_auto (ex_cfg true) tg (PBlock k ex_info n [ex_col vs])).
    { intros tg k n vs Hk Hl Hv Hn Hfit. cbn [packet_okF].
      split; [unfold in_i32; cbn; lia|]. split; [assert (2 <= max_rows) by (vm_compute; discriminate); lia|].
      split; [vm_compute; discriminate|]. split.
      - exists [ex_col vs]. split; [|intros _; destruct Hk; subst k; exact Hfit].
        constructor; [|constructor]. unfold col_ok. cbn. repeat split; try assumption; reflexivity.
      - intros _ body Hb. unfold encode_block, encode_raw_block in Hb. cbn [enc_cols ex_col c_ty c_data ex_u8] in Hb.
        assert (Hlen : blen body <= 64); [|unfold alloc_cap; lia].
        destruct vs as [|v1 [|v2 [|v3 vs]]]; cbn in Hl; subst n;
          try (vm_compute in Hb; injection Hb as <-; vm_compute; discriminate).
        exfalso. cbn [length] in Hn. lia. }
    assert (Hacc : forall vs ws, Forall2 (accepts ex_inf) [ex_col vs] [ex_col ws]).
    { intros vs ws. constructor; [|constructor]. split; [right; reflexivity|reflexivity]. }
    cbn [script_okF ex_script].
    split; [apply Hblk; [now left|reflexivity|constructor|cbn; lia|apply Hacc]|].
    split; [apply Hblk; [now left|reflexivity|repeat constructor|cbn; lia|apply Hacc]|].
    split; [reflexivity|].
    split; [apply Hblk; [now right|reflexivity|repeat constructor|cbn; lia|apply Hacc]|].
    split; [split; [reflexivity|repeat constructor]|].
    split; [reflexivity|]. split; exact I. }
  assert (Hfr : framings_ok ex_H ex_comp (ex_cfg true) ex_script ex_frs).
  { cbn [framings_ok ex_script ex_frs hd tl framing_ok].
    assert (Hff : forall m d, blen d <= 64 ->
              (forall f, compress_frame ex_H ex_comp m d = inr f -> blen f = 25 + blen d) ->
              frame_fits ex_H ex_comp (m, d)).
    { intros m d Hd Hf. split; cbn [fst snd].
      - assert (64 <= maxDataSize) by (vm_compute; discriminate). lia.
      - intros f Ef. rewrite (Hf f Ef). assert (64 <= maxBlockSize) by (vm_compute; discriminate). lia. }
    Ltac fr_block Hff :=
      intros _ body Hb; vm_compute in Hb; injection Hb as <-; split; [vm_compute; discriminate|];
      cbn [fst snd cut_frames firstn skipn];
      repeat (apply Forall_cons;
              [apply Hff; [vm_compute; discriminate|intros f Ef; vm_compute in Ef; injection Ef as <-; reflexivity]|]);
      apply Forall_nil.
    split; [fr_block Hff|]. split; [fr_block Hff|]. split; [exact I|]. split; [fr_block Hff|].
    repeat split. }
  split; [exact Hok|]. split; [exact Hfr|].
  eexists. split; [vm_compute; reflexivity|].
  split; [apply (framed_server_is_wire_script ex_H ex_comp _ _ ex_frs); [vm_compute; reflexivity|exact Hfr]|].
  split; [vm_compute; discriminate|].
  vm_compute. repeat split.
Qed.

(* why [wire_script] asks for a last payload that is not empty: with one more frame without payload BEHIND the
   2-row block (cut after all of its 21 bytes) the decoder has the whole block after the first frame and never asks
   for the second, which is then read as the next packet - the run ends in a decode error after two callbacks
   (the malformed family `trailing-empty-frame` of the harness observes the same on the implementation) *)
Example trailing_empty_frame_is_not_consumed :
  match encode_packets_fr ex_H ex_comp (ex_cfg true) ex_script [([], MNone); ([(MLZ4, 21%nat)], MNone)] with
  | Some stream =>
    let '(o, st, _) := recv ex_conf ex_inf ex_auto ex_H ex_decomp (ex_cfg true) ex_all ex_tg stream in
    o = OErr (RDecode ECorrupt) /\ length (r_trace st) = 2%nat
  | None => False
  end.
Proof. vm_compute. split; reflexivity. Qed.
