(* C20 — Scalar conversions are exact over each type's whole documented range.
   Nothing but statements closed by [exact], each followed by Print Assumptions.
   Vocabulary (model/Scalars.v): a time.Time is (unix seconds, nanoseconds, offset of its fixed zone);
   local_sec t = unix + offset, local_day t = floor(local_sec / 86400), t_Date t = the civil
   (year, month, day) of local_day t, total_ns t = unix * 1e9 + nsec. *)
From CH Require Import model.Scalars gen.Consts.
From CH Require Import proofs.CalendarProofs proofs.ScalarsProofs proofs.ScalarsProofs2 proofs.IntervalProofs.
From Coq Require Import ZArith List.
Import ListNotations.
Open Scope Z_scope.

(* ---- the calendar used by Time.Date / time.Date / AddDate in the model: a bijection between ALL day
   numbers and ALL valid civil dates (no range) ---- *)
Theorem civil_days_inverse : forall z,
  let '(y, m, d) := civil_from_days z in days_from_civil y m d = z /\ valid_civil y m d.
Proof. exact days_from_civil_of_days. Qed.
Print Assumptions civil_days_inverse.

Theorem days_civil_inverse : forall y m d,
  valid_civil y m d -> civil_from_days (days_from_civil y m d) = (y, m, d).
Proof. exact civil_of_days_from_civil. Qed.
Print Assumptions days_civil_inverse.

(* ---- Date: every instant whose local day is 1970-01-01 .. 2149-06-06, any zone offset ---- *)
(* Append stores the local day number; Row gives back the UTC midnight of that day: same calendar day as
   the value had in its own zone, less than one day (the resolution) before the value's wall clock *)
Theorem date_roundtrip : forall t,
  t_IsZero t = false -> 0 <= local_day t < 65536 ->
  to_date t = local_day t /\
  col_date_Row (col_date_Append t) = mkT (86400 * local_day t) 0 0 /\
  t_Date (col_date_Row (col_date_Append t)) = t_Date t /\
  0 <= local_sec t - unix (col_date_Row (col_date_Append t)) < 86400.
Proof. exact date_rt. Qed.
Print Assumptions date_roundtrip.

(* all 65 536 Date values *)
Theorem date_inverse : forall d, 0 <= d < 65536 ->
  t_IsZero (date_Time d) = false /\ to_date (date_Time d) = d /\
  unix (date_Time d) = 86400 * d /\ nsec (date_Time d) = 0 /\ zoff (date_Time d) = 0.
Proof. exact date_inv. Qed.
Print Assumptions date_inverse.

(* exactly, when representable *)
Theorem date_exact_when_representable : forall t,
  zoff t = 0 -> nsec t = 0 -> unix t mod 86400 = 0 -> 0 <= unix t < 65536 * 86400 ->
  date_Time (to_date t) = t.
Proof. exact date_exact. Qed.
Print Assumptions date_exact_when_representable.

(* ---- Date32: the whole int32 day range, before 1970 included (floor, not truncation) ---- *)
Theorem date32_roundtrip : forall t,
  t_IsZero t = false -> - two31 <= local_day t < two31 ->
  to_date32 t = local_day t /\
  col_date32_Row (col_date32_Append t) = mkT (86400 * local_day t) 0 0 /\
  t_Date (col_date32_Row (col_date32_Append t)) = t_Date t /\
  0 <= local_sec t - unix (col_date32_Row (col_date32_Append t)) < 86400.
Proof. exact date32_rt. Qed.
Print Assumptions date32_roundtrip.

(* the documented range 1900-01-01 .. 2299-12-31 in every fixed zone -12h .. +14h: no side condition *)
Theorem date32_roundtrip_documented_range : forall t,
  -43200 <= zoff t <= 50400 ->
  days_from_civil 1900 1 1 <= local_day t <= days_from_civil 2299 12 31 ->
  to_date32 t = local_day t /\
  col_date32_Row (col_date32_Append t) = mkT (86400 * local_day t) 0 0 /\
  t_Date (col_date32_Row (col_date32_Append t)) = t_Date t /\
  0 <= local_sec t - unix (col_date32_Row (col_date32_Append t)) < 86400.
Proof. exact date32_rt_documented. Qed.
Print Assumptions date32_roundtrip_documented_range.

(* every Date32 value except the one day whose midnight is Go's zero Time (0001-01-01, mapped to 0 by the
   library's IsZero rule; far outside the documented range) *)
Theorem date32_inverse : forall d, - two31 <= d < two31 -> d <> -719162 ->
  to_date32 (date32_Time d) = d /\
  unix (date32_Time d) = 86400 * d /\ nsec (date32_Time d) = 0 /\ zoff (date32_Time d) = 0.
Proof. exact date32_inv. Qed.
Print Assumptions date32_inverse.

Theorem date32_exact_when_representable : forall t,
  zoff t = 0 -> nsec t = 0 -> unix t mod 86400 = 0 -> - two31 * 86400 <= unix t < two31 * 86400 ->
  t_IsZero t = false -> date32_Time (to_date32 t) = t.
Proof. exact date32_exact. Qed.
Print Assumptions date32_exact_when_representable.

(* ---- DateTime: all 2^32 seconds, any zone of the value, any time.Local, any column Location ---- *)
Theorem datetime_roundtrip : forall loc cloc t,
  t_IsZero t = false -> 0 <= unix t < two32 ->
  to_datetime t = unix t /\
  datetime_Time loc (to_datetime t) = mkT (unix t) 0 loc /\
  col_datetime_Row loc cloc (col_datetime_Append t) = mkT (unix t) 0 (col_loc loc cloc).
Proof. exact datetime_rt. Qed.
Print Assumptions datetime_roundtrip.

Theorem datetime_inverse : forall loc v, 0 <= v < two32 ->
  to_datetime (datetime_Time loc v) = v /\ datetime_Time loc v = mkT v 0 loc.
Proof. exact datetime_inv. Qed.
Print Assumptions datetime_inverse.

(* ---- DateTime64, every precision 0..9, every instant whose tick count fits the int64 value ---- *)
(* the stored value is floor(total nanoseconds / tick); Time gives back the same second with the
   sub-second part rounded down to the tick *)
Theorem datetime64_roundtrip : forall loc p t,
  0 <= p <= 9 -> wf_time t -> t_IsZero t = false -> in_i64z (ticks_of t p) ->
  to_datetime64 t p = ticks_of t p /\
  unix (datetime64_Time loc (to_datetime64 t p) p) = unix t /\
  nsec (datetime64_Time loc (to_datetime64 t p) p) = nsec t - nsec t mod precision_Scale p /\
  zoff (datetime64_Time loc (to_datetime64 t p) p) = loc.
Proof. exact datetime64_rt. Qed.
Print Assumptions datetime64_roundtrip.

(* as an instant: within one tick below the value, exact when on a tick, same calendar day in the value's zone *)
Theorem datetime64_roundtrip_instant : forall loc p t,
  0 <= p <= 9 -> wf_time t -> t_IsZero t = false -> in_i64z (ticks_of t p) ->
  let b := datetime64_Time loc (to_datetime64 t p) p in
  wf_time b /\ total_ns b = ticks_of t p * precision_Scale p /\
  total_ns b <= total_ns t < total_ns b + precision_Scale p /\
  (nsec t mod precision_Scale p = 0 -> unix b = unix t /\ nsec b = nsec t) /\
  t_Date (t_In (zoff t) b) = t_Date t.
Proof. exact datetime64_rt_instant. Qed.
Print Assumptions datetime64_roundtrip_instant.

(* the hypothesis [in_i64z (ticks_of t p)] covers the documented range: 1900-01-01 00:00:00 up to (excluding)
   2300-01-01 00:00:00 for precisions 0..8; at precision 9 it is exactly "the instant fits int64 nanoseconds" *)
Theorem datetime64_documented_range_fits : forall p t,
  0 <= p <= 8 -> wf_time t -> -2208988800 <= unix t < 10413792000 -> in_i64z (ticks_of t p).
Proof. exact datetime64_documented_range. Qed.
Print Assumptions datetime64_documented_range_fits.

Theorem datetime64_range_bounds_are_the_documented_dates :
  days_from_civil 1900 1 1 * 86400 = -2208988800 /\ days_from_civil 2300 1 1 * 86400 = 10413792000.
Proof. exact datetime64_bounds_are_dates. Qed.
Print Assumptions datetime64_range_bounds_are_the_documented_dates.

Theorem datetime64_precision9_is_nanoseconds : forall t, ticks_of t 9 = total_ns t.
Proof. exact datetime64_nano_range. Qed.
Print Assumptions datetime64_precision9_is_nanoseconds.

(* every int64 DateTime64 value at every precision: Time never leaves [0,1e9) nanoseconds, denotes
   value * tick, and converts back to the value (unless it is Go's zero Time, which the library maps to 0) *)
Theorem datetime64_inverse : forall loc p v,
  0 <= p <= 9 -> in_i64z v ->
  let b := datetime64_Time loc v p in
  wf_time b /\ total_ns b = v * precision_Scale p /\ zoff b = loc /\
  (t_IsZero b = false -> to_datetime64 b p = v).
Proof. exact datetime64_inv. Qed.
Print Assumptions datetime64_inverse.

Theorem precision_scale_is_power_of_ten : forall p, 0 <= p <= 9 -> precision_Scale p = 10 ^ (9 - p).
Proof. exact scale_pow. Qed.
Print Assumptions precision_scale_is_power_of_ten.

(* ---- 128/256-bit helpers: every int / uint64 ---- *)
Theorem int128_from_int_inverse : forall v, in_i64z v ->
  int128_Int (int128_FromInt v) = v /\ i128_val (int128_FromInt v) = v.
Proof. exact int128_inv. Qed.
Print Assumptions int128_from_int_inverse.

Theorem int128_from_uint64_inverse : forall v, 0 <= v < two64 ->
  int128_UInt64 (int128_FromUInt64 v) = v /\ i128_val (int128_FromUInt64 v) = v.
Proof. exact int128_uint64_inv. Qed.
Print Assumptions int128_from_uint64_inverse.

Theorem uint128_from_uint64_inverse : forall v, 0 <= v < two64 ->
  uint128_UInt64 (uint128_FromUInt64 v) = v /\ u128_val (uint128_FromUInt64 v) = v.
Proof. exact uint128_inv. Qed.
Print Assumptions uint128_from_uint64_inverse.

Theorem uint128_from_int_inverse : forall v, in_i64z v ->
  u128_val (uint128_FromInt v) = v mod two128 /\ (0 <= v -> uint128_Int (uint128_FromInt v) = v).
Proof. exact uint128_int_inv. Qed.
Print Assumptions uint128_from_int_inverse.

Theorem int256_sign_extension : forall v, in_i64z v -> i256_val (int256_FromInt v) = v.
Proof. exact int256_sign_ext. Qed.
Print Assumptions int256_sign_extension.

Theorem uint256_from_inverse : forall v,
  (0 <= v < two64 -> u256_val (uint256_FromUInt64 v) = v) /\
  (in_i64z v -> u256_val (uint256_FromInt v) = v mod two256).
Proof. exact uint256_inv. Qed.
Print Assumptions uint256_from_inverse.

(* ---- IPv4 (all 2^32 by arithmetic) / IPv6 ---- *)
Theorem ipv4_inverse : forall v, 0 <= v < two32 -> to_IPv4 (ipv4_ToIP v) = Some v.
Proof. exact ipv4_inv. Qed.
Print Assumptions ipv4_inverse.

Theorem ipv4_inverse_addr : forall a b c d, is_byte a -> is_byte b -> is_byte c -> is_byte d ->
  exists v, to_IPv4 (Addr4 [a; b; c; d]) = Some v /\ 0 <= v < two32 /\ ipv4_ToIP v = Addr4 [a; b; c; d].
Proof. exact ipv4_inv'. Qed.
Print Assumptions ipv4_inverse_addr.

Theorem ipv4_of_mapped_ipv6 : forall a b c d,
  to_IPv4 (Addr6 (v4in6_prefix ++ [a; b; c; d])) = to_IPv4 (Addr4 [a; b; c; d]).
Proof. exact ipv4_of_mapped. Qed.
Print Assumptions ipv4_of_mapped_ipv6.

Theorem ipv6_inverse : forall v, to_IPv6 (ipv6_ToIP v) = v /\ ipv6_ToIP (to_IPv6 (Addr6 v)) = Addr6 v.
Proof. exact ipv6_inv. Qed.
Print Assumptions ipv6_inverse.

Theorem ipv6_of_ipv4 : forall a b c d,
  to_IPv6 (Addr4 [a; b; c; d]) = v4in6_prefix ++ [a; b; c; d] /\
  to_IPv4 (ipv6_ToIP (to_IPv6 (Addr4 [a; b; c; d]))) = to_IPv4 (Addr4 [a; b; c; d]).
Proof. exact ipv6_of_v4. Qed.
Print Assumptions ipv6_of_ipv4.

(* ---- Interval.Add ---- *)
(* seconds / minutes / hours: the instant moves by exactly n units, zone kept; guard = Go's Duration
   (int64 nanoseconds) does not overflow *)
Theorem interval_add_seconds_minutes_hours : forall scale unit_ns v t,
  In (scale, unit_ns) [(IntervalSecond, dur_Second); (IntervalMinute, dur_Minute); (IntervalHour, dur_Hour)] ->
  wf_time t -> - two61 <= unix t <= two61 -> in_i64z (unit_ns * v) ->
  exists t', interval_Add scale v t = Some t' /\
             wf_time t' /\ total_ns t' = total_ns t + v * unit_ns /\ zoff t' = zoff t.
Proof. exact interval_add_clock_units. Qed.
Print Assumptions interval_add_seconds_minutes_hours.

(* days / weeks in a fixed zone: exactly n x 86400 (7n x 86400) seconds, nanoseconds and zone kept *)
Theorem interval_add_day : forall v t,
  wf_time t -> sane t -> - two31z <= v <= two31z ->
  interval_Add IntervalDay v t = Some (mkT (unix t + v * 86400) (nsec t) (zoff t)).
Proof. exact interval_add_days. Qed.
Print Assumptions interval_add_day.

Theorem interval_add_week : forall v t,
  wf_time t -> sane t -> - 268435456 <= v <= 268435456 ->
  interval_Add IntervalWeek v t = Some (mkT (unix t + v * 7 * 86400) (nsec t) (zoff t)).
Proof. exact interval_add_weeks. Qed.
Print Assumptions interval_add_week.

(* months: time of day, nanoseconds and zone kept; month count carried into the year; the day of month is
   kept whenever the target month has that day, otherwise it overflows into the next month as time.Date does *)
Theorem interval_add_month : forall v t,
  wf_time t -> sane t -> - two31z <= v <= two31z ->
  let '(y, m, d) := t_Date t in
  let y2 := y + (m - 1 + v) / 12 in
  let m2 := (m - 1 + v) mod 12 + 1 in
  exists t', interval_Add IntervalMonth v t = Some t' /\
    nsec t' = nsec t /\ zoff t' = zoff t /\ t_Clock t' = t_Clock t /\
    local_day t' = days_from_civil y2 m2 1 + (d - 1) /\
    (d <= days_in_month y2 m2 -> t_Date t' = (y2, m2, d)).
Proof. exact interval_add_months. Qed.
Print Assumptions interval_add_month.

(* KNOWN FINDING (interval-quarter-four-months).  The intended statement is
     interval_add_quarter : forall v t, - 715827882 <= v <= 715827882 ->
       interval_Add IntervalQuarter v t = interval_Add IntervalMonth (3 * v) t.
   It is FALSE of the code, which adds FOUR months per quarter; the pinned unit test TestInterval_Add asserts
   that behaviour, so it cannot be repaired by a fix: commit.  The witness and what the code does instead: *)
Theorem interval_add_quarter_refuted :
  exists v t, wf_time t /\ sane t /\ - 715827882 <= v <= 715827882 /\
    interval_Add IntervalQuarter v t = Some (mkT 1589536800 0 0) /\
    interval_Add IntervalMonth (3 * v) t = Some (mkT 1586944800 0 0) /\
    t_Date t = (2020, 1, 15) /\ t_Date (mkT 1589536800 0 0) = (2020, 5, 15) /\
    t_Date (mkT 1586944800 0 0) = (2020, 4, 15) /\
    interval_Add IntervalQuarter v t <> interval_Add IntervalMonth (3 * v) t.
Proof. exact interval_add_quarters_refuted. Qed.
Print Assumptions interval_add_quarter_refuted.

Theorem interval_add_quarter_as_implemented : forall v t,
  - 536870912 <= v <= 536870912 ->
  interval_Add IntervalQuarter v t = interval_Add IntervalMonth (4 * v) t.
Proof. exact interval_add_quarters_impl. Qed.
Print Assumptions interval_add_quarter_as_implemented.

(* a year is twelve months *)
Theorem interval_add_year : forall v t,
  wf_time t -> sane t -> - 178956970 <= v <= 178956970 ->
  interval_Add IntervalYear v t = interval_Add IntervalMonth (12 * v) t.
Proof. exact interval_add_years. Qed.
Print Assumptions interval_add_year.

(* tie to the source: the interval units, re-read from proto/col_interval.go on this run, are pairwise distinct *)
Theorem interval_units_distinct : NoDup interval_scales.
Proof. exact interval_units_nodup. Qed.
Print Assumptions interval_units_distinct.

(* non-vacuity: concrete instants that meet the hypotheses above, evaluated by the model — the two repaired
   defects: 1960-05-05 12:00 UTC is Date32 -3528 (not -3527), 2290-01-01 at precision 3 comes back as itself;
   2020-01-15 10:00 plus three months is 2020-04-15 10:00; and a pre-1970 half-second floors *)
Example c20_nonvacuous :
  (let t := mkT (-304776000) 0 0 in
     t_IsZero t = false /\ local_day t = -3528 /\ to_date32 t = -3528 /\ t_Date (date32_Time (to_date32 t)) = (1960, 5, 5)) /\
  (let t := mkT 10098259200 0 0 in
     t_IsZero t = false /\ to_datetime64 t 3 = 10098259200000 /\ datetime64_Time 0 (to_datetime64 t 3) 3 = t /\ t_Date t = (2290, 1, 1)) /\
  (let t := mkT 1579082400 0 0 in
     interval_Add IntervalMonth 3 t = Some (mkT 1586944800 0 0) /\ t_Date (mkT 1586944800 0 0) = (2020, 4, 15)) /\
  (let t := mkT (-631152000) 500000000 3600 in
     to_datetime64 t 0 = -631152000 /\ datetime64_Time 3600 (to_datetime64 t 0) 0 = mkT (-631152000) 0 3600).
Proof. vm_compute. repeat split; reflexivity. Qed.

(* ================================================================================================
   THE TIE TO THE SOURCE.  gen/ScalFuns.v is written on every run by translator/minigo.go from the Go
   source of /repo/proto (date.go date32.go datetime.go datetime64.go int128.go int256.go ipv4.go ipv6.go
   col_interval.go): one [go_<Name>] per function, every arithmetic result wrapped to the width
   and signedness of its Go type, / and % as Z.quot / Z.rem, Go's panics as [None].  Each translated
   function IS the hand model the theorems above are stated over (or, for the three functions without a
   hand model, has the stated specification).  Premises: only the Go type of a parameter where the
   translation converts it (DateTime is a uint32, DateTime64 an int64).  The twelfth conjunct is the fuel
   of the one loop (Precision.Scale): more fuel than the translator gives never changes the result. *)
From CH Require Import gen.ScalFuns proofs.ScalFunsProofs.

Theorem scalar_model_is_source :
  (forall d, go_Date_Unix d = date_Unix d) /\
  (forall loc d, go_Date_Time loc d = date_Time d) /\
  (forall t, go_ToDate t = to_date t) /\
  (forall y m d, go_NewDate y m d = to_date (go_Date y m d 0 0 0 0 0)) /\
  (forall d, go_Date32_Unix d = date32_Unix d) /\
  (forall loc d, go_Date32_Time loc d = date32_Time d) /\
  (forall t, go_ToDate32 t = to_date32 t) /\
  (forall y m d, go_NewDate32 y m d = to_date32 (go_Date y m d 0 0 0 0 0)) /\
  (forall t, go_ToDateTime t = to_datetime t) /\
  (forall loc d, 0 <= d < two32 -> go_DateTime_Time loc d = datetime_Time loc d) /\
  (forall p, go_Precision_Scale p = precision_Scale p) /\
  (forall k p, 0 <= p -> go_Precision_Scale_for1 (Z.to_nat PrecisionNano + k) p PrecisionNano 1 =
                         go_Precision_Scale_for1 (Z.to_nat PrecisionNano) p PrecisionNano 1) /\
  (forall p, go_Precision_Duration p = precision_Scale p) /\
  (forall p, go_Precision_Valid p = precision_Valid p) /\
  (forall t p, go_ToDateTime64 t p = Some (to_datetime64 t p)) /\
  (forall loc d p, in_i64z d -> go_DateTime64_Time loc d p = Some (datetime64_Time loc d p)) /\
  (forall i, go_Int128_Int i = int128_Int i) /\
  (forall i, go_Int128_UInt64 i = int128_UInt64 i) /\
  (forall v, go_Int128FromInt v = int128_FromInt v) /\
  (forall v, go_Int128FromUInt64 v = int128_FromUInt64 v) /\
  (forall i, go_UInt128_UInt64 i = uint128_UInt64 i) /\
  (forall i, go_UInt128_Int i = uint128_Int i) /\
  (forall v, go_UInt128FromInt v = uint128_FromInt v) /\
  (forall v, go_UInt128FromUInt64 v = uint128_FromUInt64 v) /\
  (forall v, go_Int256FromInt v = int256_FromInt v) /\
  (forall v, go_UInt256FromInt v = uint256_FromInt v) /\
  (forall v, go_UInt256FromUInt64 v = uint256_FromUInt64 v) /\
  (forall v, go_IPv4_ToIP v = ipv4_ToIP v) /\
  (forall ip, go_ToIPv4 ip = to_IPv4 ip) /\
  (forall v, go_IPv6_ToIP v = ipv6_ToIP v) /\
  (forall ip, go_ToIPv6 ip = to_IPv6 ip) /\
  (forall scale value t, go_Interval_Add (mk_go_Interval scale value) t = interval_Add scale value t).
Proof. exact scalar_tie_holds. Qed.
Print Assumptions scalar_model_is_source.

(* ---- main theorems restated directly over the translated source ---- *)
Theorem source_date32_roundtrip : forall loc t,
  t_IsZero t = false -> - two31 <= local_day t < two31 ->
  go_ToDate32 t = local_day t /\
  go_Date32_Time loc (go_ToDate32 t) = mkT (86400 * local_day t) 0 0 /\
  t_Date (go_Date32_Time loc (go_ToDate32 t)) = t_Date t /\
  0 <= local_sec t - unix (go_Date32_Time loc (go_ToDate32 t)) < 86400.
Proof. exact go_date32_rt. Qed.
Print Assumptions source_date32_roundtrip.

(* neither conversion panics (divides by zero) and the round trip is the one of [datetime64_roundtrip] *)
Theorem source_datetime64_roundtrip : forall loc p t,
  0 <= p <= 9 -> wf_time t -> t_IsZero t = false -> in_i64z (ticks_of t p) ->
  exists v b, go_ToDateTime64 t p = Some v /\ v = ticks_of t p /\
              go_DateTime64_Time loc v p = Some b /\
              unix b = unix t /\ nsec b = nsec t - nsec t mod go_Precision_Scale p /\ zoff b = loc.
Proof. exact go_datetime64_rt. Qed.
Print Assumptions source_datetime64_roundtrip.

Theorem source_interval_add_seconds_minutes_hours : forall scale unit_ns v t,
  In (scale, unit_ns) [(IntervalSecond, dur_Second); (IntervalMinute, dur_Minute); (IntervalHour, dur_Hour)] ->
  wf_time t -> - two61 <= unix t <= two61 -> in_i64z (unit_ns * v) ->
  exists t', go_Interval_Add (mk_go_Interval scale v) t = Some t' /\
             wf_time t' /\ total_ns t' = total_ns t + v * unit_ns /\ zoff t' = zoff t.
Proof. exact go_interval_add_clock_units. Qed.
Print Assumptions source_interval_add_seconds_minutes_hours.

Theorem source_interval_add_day : forall v t,
  wf_time t -> sane t -> - two31z <= v <= two31z ->
  go_Interval_Add (mk_go_Interval IntervalDay v) t = Some (mkT (unix t + v * 86400) (nsec t) (zoff t)).
Proof. exact go_interval_add_days. Qed.
Print Assumptions source_interval_add_day.

Theorem source_interval_add_month : forall v t,
  wf_time t -> sane t -> - two31z <= v <= two31z ->
  let '(y, m, d) := t_Date t in
  let y2 := y + (m - 1 + v) / 12 in
  let m2 := (m - 1 + v) mod 12 + 1 in
  exists t', go_Interval_Add (mk_go_Interval IntervalMonth v) t = Some t' /\
    nsec t' = nsec t /\ zoff t' = zoff t /\ t_Clock t' = t_Clock t /\
    local_day t' = days_from_civil y2 m2 1 + (d - 1) /\
    (d <= days_in_month y2 m2 -> t_Date t' = (y2, m2, d)).
Proof. exact go_interval_add_months. Qed.
Print Assumptions source_interval_add_month.

(* the known finding (interval-quarter-four-months), about the translated source itself *)
Theorem source_interval_add_quarter_refuted :
  exists v t, wf_time t /\ sane t /\ - 715827882 <= v <= 715827882 /\
    go_Interval_Add (mk_go_Interval IntervalQuarter v) t = Some (mkT 1589536800 0 0) /\
    go_Interval_Add (mk_go_Interval IntervalMonth (3 * v)) t = Some (mkT 1586944800 0 0) /\
    t_Date t = (2020, 1, 15) /\ t_Date (mkT 1589536800 0 0) = (2020, 5, 15) /\
    t_Date (mkT 1586944800 0 0) = (2020, 4, 15) /\
    go_Interval_Add (mk_go_Interval IntervalQuarter v) t <> go_Interval_Add (mk_go_Interval IntervalMonth (3 * v)) t.
Proof. exact go_interval_add_quarters_refuted. Qed.
Print Assumptions source_interval_add_quarter_refuted.

Theorem source_interval_add_quarter_as_implemented : forall v t,
  - 536870912 <= v <= 536870912 ->
  go_Interval_Add (mk_go_Interval IntervalQuarter v) t = go_Interval_Add (mk_go_Interval IntervalMonth (4 * v)) t.
Proof. exact go_interval_add_quarters_impl. Qed.
Print Assumptions source_interval_add_quarter_as_implemented.

(* non-vacuity of the tie: the translated functions compute, on the instants of [c20_nonvacuous] *)
Example c20_source_nonvacuous :
  go_ToDate32 (mkT (-304776000) 0 0) = -3528 /\
  go_ToDateTime64 (mkT 10098259200 0 0) 3 = Some 10098259200000 /\
  go_DateTime64_Time 0 10098259200000 3 = Some (mkT 10098259200 0 0) /\
  go_Interval_Add (mk_go_Interval IntervalMonth 3) (mkT 1579082400 0 0) = Some (mkT 1586944800 0 0) /\
  go_Interval_Add (mk_go_Interval IntervalQuarter 1) (mkT 1579082400 0 0) = Some (mkT 1589536800 0 0) /\
  go_Interval_Add (mk_go_Interval 8 1) (mkT 0 0 0) = None /\
  go_Precision_Scale 3 = 1000000 /\ go_ToIPv4 AddrZero = None /\
  go_ToIPv4 (go_IPv4_ToIP 3232235777) = Some 3232235777.
Proof. vm_compute. repeat split; reflexivity. Qed.

(* ==== C20y: the temporal COLUMNS' methods are TRANSLATED from the Go source too ========================
   gen/ScalFuns.v also holds, regenerated on every run from proto/col_date.go, col_date32.go, col_datetime.go,
   col_datetime64.go: ColDate / ColDate32 .Append .AppendArr .Row, ColDateTime .Append .AppendRaw .AppendArr
   .Row .loc .Infer, ColDateTime64 .Append .AppendRaw .AppendArr .Row .loc .WithPrecision .WithLocation .Infer.
   A column object is the value its pointer receiver points to (a list, or a record of its fields); a method
   returns the new value; None = a Go panic (no precision set, index out of range); an error is [true].
   The string parsing of Infer is NOT translated: it is the primitives of model/ScalCols.v, which are the
   definitions of model/TypeStr.v ([parse_datetime64_params_is_typestr] below).  What is translated is what
   Infer DOES with the parsed parameters. *)
From CH Require Import model.TypeStr model.ScalCols.

(* each translated method IS the hand model of model/ScalCols.v.  Premises: only the Go type of the rows
   where Row converts them (DateTime is a uint32, DateTime64 an int64).  The batches' index checks and the
   nil check of t.In(c.loc()) never fail: the only panics left are the documented ones. *)
Theorem column_model_is_source :
  (forall c v, go_ColDate_Append c v = col_date_AppendV c v) /\
  (forall c vs, go_ColDate_AppendArr c vs = Some (col_date_AppendArr c vs)) /\
  (forall loc c i, go_ColDate_Row loc c i = col_date_RowAt c i) /\
  (forall c v, go_ColDate32_Append c v = col_date32_AppendV c v) /\
  (forall c vs, go_ColDate32_AppendArr c vs = Some (col_date32_AppendArr c vs)) /\
  (forall loc c i, go_ColDate32_Row loc c i = col_date32_RowAt c i) /\
  (forall tzdb c t, go_ColDateTime_Infer tzdb c t = col_dt_Infer (parse_datetime_params tzdb t) c) /\
  (forall loc c, go_ColDateTime_loc loc c = Some (col_dt_loc loc c)) /\
  (forall loc c i, Forall (fun d => 0 <= d < two32) (dt_Data c) -> go_ColDateTime_Row loc c i = col_dt_RowAt loc c i) /\
  (forall c d, go_ColDateTime_AppendRaw c d = col_dt_AppendRaw c d) /\
  (forall c v, go_ColDateTime_Append c v = col_dt_Append c v) /\
  (forall c vs, go_ColDateTime_AppendArr c vs = Some (col_dt_AppendArr c vs)) /\
  (forall c p, go_ColDateTime64_WithPrecision c p = col_dt64_WithPrecision c p) /\
  (forall c l, go_ColDateTime64_WithLocation c l = col_dt64_WithLocation c l) /\
  (forall tzdb c t, go_ColDateTime64_Infer tzdb c t = col_dt64_Infer (parse_datetime64_params tzdb t) c) /\
  (forall loc c, go_ColDateTime64_loc loc c = Some (col_dt64_loc loc c)) /\
  (forall loc c i, Forall in_i64z (dt64_Data c) -> go_ColDateTime64_Row loc c i = col_dt64_RowAt loc c i) /\
  (forall c d, go_ColDateTime64_AppendRaw c d = col_dt64_AppendRaw c d) /\
  (forall c v, go_ColDateTime64_Append c v = col_dt64_Append c v) /\
  (forall c vs, go_ColDateTime64_AppendArr c vs = col_dt64_AppendArr c vs).
Proof. exact column_tie_holds. Qed.
Print Assumptions column_model_is_source.

(* AppendArr vs = the fold of Append over vs, for the four columns (DateTime64: with a precision set; without
   one both panic, the batch even when it is empty) *)
Theorem source_appendarr_is_fold_of_append :
  (forall c vs, go_ColDate_AppendArr c vs = Some (fold_left go_ColDate_Append vs c)) /\
  (forall c vs, go_ColDate32_AppendArr c vs = Some (fold_left go_ColDate32_Append vs c)) /\
  (forall c vs, go_ColDateTime_AppendArr c vs = Some (fold_left go_ColDateTime_Append vs c)) /\
  (forall c vs, go_ColDateTime64_AppendArr c vs =
     if dt64_PrecisionSet c then fold_left (fun oc v => obind oc (fun c => go_ColDateTime64_Append c v)) vs (Some c)
     else None).
Proof. exact appendarr_fold_tie_holds. Qed.
Print Assumptions source_appendarr_is_fold_of_append.

(* after ANY history of Append / AppendArr / AppendRaw / Infer / WithPrecision / WithLocation on one
   ColDateTime64 object (run on the translated methods; a rejected type is an error and changes nothing), the
   object's precision, zone and flag are those of the last accepted Infer / With.. - nothing else of the
   history survives in them *)
Theorem source_column_params_after_history : forall tzdb h c c',
  go_dt64_run tzdb c h = Some c' ->
  dt64_params_of c' = fold_left (dt64_params_step tzdb) h (dt64_params_of c).
Proof. exact go_dt64_run_params. Qed.
Print Assumptions source_column_params_after_history.

(* THE HISTORY STATEMENT (the one the seeded change C20C violates): whatever the history - values appended at
   another precision, singly or in batches, types of another precision or zone inferred in between - the next
   appended value is stored as its tick count at the CURRENT precision p and read back by Row as the same
   second, the nanoseconds rounded down to the tick, in the CURRENT zone (time.Local when there is none) *)
Theorem source_column_append_row : forall tzdb loc h c0 c v p l,
  0 <= dt64_Precision c0 <= 9 -> Forall dt64_op_ok h ->
  go_dt64_run tzdb c0 h = Some c ->
  fold_left (dt64_params_step tzdb) h (dt64_params_of c0) = (p, l, true) ->
  wf_time v -> t_IsZero v = false -> in_i64z (ticks_of v p) ->
  exists c' b,
    go_ColDateTime64_Append c v = Some c' /\
    dt64_Data c' = dt64_Data c ++ [ticks_of v p] /\ dt64_params_of c' = (p, l, true) /\
    go_ColDateTime64_Row loc c' (slice_len (dt64_Data c)) = Some b /\
    unix b = unix v /\ nsec b = nsec v - nsec v mod precision_Scale p /\ zoff b = col_loc loc l.
Proof. exact go_dt64_history_append_row. Qed.
Print Assumptions source_column_append_row.

(* the same for every element of a batch appended after the history *)
Theorem source_column_appendarr_row : forall tzdb loc h c0 c vs k v p l,
  0 <= dt64_Precision c0 <= 9 -> Forall dt64_op_ok h ->
  go_dt64_run tzdb c0 h = Some c ->
  fold_left (dt64_params_step tzdb) h (dt64_params_of c0) = (p, l, true) ->
  nth_error vs k = Some v ->
  wf_time v -> t_IsZero v = false -> in_i64z (ticks_of v p) ->
  exists c' b,
    go_ColDateTime64_AppendArr c vs = Some c' /\
    dt64_Data c' = dt64_Data c ++ map (fun v => to_datetime64 v p) vs /\ dt64_params_of c' = (p, l, true) /\
    go_ColDateTime64_Row loc c' (slice_len (dt64_Data c) + Z.of_nat k) = Some b /\
    unix b = unix v /\ nsec b = nsec v - nsec v mod precision_Scale p /\ zoff b = col_loc loc l.
Proof. exact go_dt64_history_appendarr_row. Qed.
Print Assumptions source_column_appendarr_row.

(* Date / Date32 batches whose values carry different zone offsets (the statement the seeded change C20A
   violates): element k of a batch appended to ANY column lands on the calendar day it has in ITS OWN zone,
   whatever the zones of its neighbours *)
Theorem source_date_batch_row : forall loc c vs k v,
  nth_error vs k = Some v -> t_IsZero v = false -> 0 <= local_day v < 65536 ->
  exists c' b,
    go_ColDate_AppendArr c vs = Some c' /\ c' = c ++ map to_date vs /\
    go_ColDate_Row loc c' (slice_len c + Z.of_nat k) = Some b /\
    b = mkT (86400 * local_day v) 0 0 /\ t_Date b = t_Date v.
Proof. exact go_date_batch_row. Qed.
Print Assumptions source_date_batch_row.

Theorem source_date32_batch_row : forall loc c vs k v,
  nth_error vs k = Some v -> t_IsZero v = false -> - two31 <= local_day v < two31 ->
  exists c' b,
    go_ColDate32_AppendArr c vs = Some c' /\ c' = c ++ map to_date32 vs /\
    go_ColDate32_Row loc c' (slice_len c + Z.of_nat k) = Some b /\
    b = mkT (86400 * local_day v) 0 0 /\ t_Date b = t_Date v.
Proof. exact go_date32_batch_row. Qed.
Print Assumptions source_date32_batch_row.

Theorem source_date_append_row : forall loc c v,
  t_IsZero v = false -> 0 <= local_day v < 65536 ->
  go_ColDate_Row loc (go_ColDate_Append c v) (slice_len c) = Some (mkT (86400 * local_day v) 0 0).
Proof. exact go_date_append_row. Qed.
Print Assumptions source_date_append_row.

Theorem source_date32_append_row : forall loc c v,
  t_IsZero v = false -> - two31 <= local_day v < two31 ->
  go_ColDate32_Row loc (go_ColDate32_Append c v) (slice_len c) = Some (mkT (86400 * local_day v) 0 0).
Proof. exact go_date32_append_row. Qed.
Print Assumptions source_date32_append_row.

(* one ColDateTime object: after any history (which never panics) the next appended value is read back as
   the same second in the zone of the last accepted type (time.Local when that type named none) *)
Theorem source_datetime_column_append_row : forall tzdb loc h c0 c v,
  Forall (fun d => 0 <= d < two32) (dt_Data c0) ->
  (forall op d, In op h -> op = DOpAppendRaw d -> 0 <= d < two32) ->
  go_dt_run tzdb c0 h = Some c ->
  t_IsZero v = false -> 0 <= unix v < two32 ->
  go_ColDateTime_Row loc (go_ColDateTime_Append c v) (slice_len (dt_Data c)) =
  Some (mkT (unix v) 0 (col_loc loc (fold_left (dt_zone_step tzdb) h (dt_Location c0)))).
Proof. exact go_dt_history_append_row. Qed.
Print Assumptions source_datetime_column_append_row.

(* the primitives the two Infer methods are translated up to ARE the parsing of model/TypeStr.v (C19):
   TypeStr.datetime64_infer / datetime_infer on a fresh column, with time.LoadLocation giving the zone
   called [name l] for the offset l the column model uses *)
Theorem parse_datetime64_params_is_typestr : forall (tzdb : bytes -> option Z) (name : Z -> bytes) t,
  datetime64_infer (fun s => option_map name (tzdb s)) None t =
  match parse_datetime64_params tzdb t with
  | Some (p, l) => rok (CDateTime64 (Z.to_N p) (option_map name l))
  | None => Err EInvalid
  end.
Proof. exact parse_datetime64_params_is_TypeStr. Qed.
Print Assumptions parse_datetime64_params_is_typestr.

Theorem parse_datetime_params_is_typestr : forall (tzdb : bytes -> option Z) (name : Z -> bytes) t,
  datetime_infer (fun s => option_map name (tzdb s)) t =
  match parse_datetime_params tzdb t with
  | Some l => rok (CDateTime (option_map name l))
  | None => Err EInvalid
  end.
Proof. exact parse_datetime_params_is_TypeStr. Qed.
Print Assumptions parse_datetime_params_is_typestr.

(* non-vacuity: the history of the seeded change C20C, run on the translated methods.  A fresh column,
   WithPrecision(3), Append, Infer("DateTime64(9, 'X')") with X at +3600, Append: the second value is stored in
   nanoseconds and read back to the nanosecond in X; a Date batch of 23:30 at -1h / +1h / UTC lands on three
   different days *)
Example c20_columns_nonvacuous :
  let tzdb := fun s : bytes => match s with [88%N] => Some 3600 | _ => None end in
  let ty := [68;97;116;101;84;105;109;101;54;52;40;57;44;32;39;88;39;41]%N in
  let c0 := mkColDT64 [] None 0 false in
  let h := [OpWithPrecision 3; OpAppend (mkT 1700000000 123456789 0); OpInfer ty] in
  let c := mkColDT64 [1700000000123] (Some 3600) 9 true in
  let c' := mkColDT64 [1700000000123; 1700000001987654321] (Some 3600) 9 true in
  go_dt64_run tzdb c0 h = Some c /\
  go_ColDateTime64_Append c (mkT 1700000001 987654321 7200) = Some c' /\
  go_ColDateTime64_Row 0 c' 1 = Some (mkT 1700000001 987654321 3600) /\
  go_ColDateTime64_Row 0 c' 2 = None /\
  go_ColDateTime64_Append c0 (mkT 1700000000 0 0) = None /\
  go_ColDate_AppendArr [7] [mkT 84600 0 (-3600); mkT 84600 0 3600; mkT 84600 0 0] = Some [7; 0; 1; 0] /\
  go_ColDate_Row 0 [7; 0; 1; 0] 2 = Some (mkT 86400 0 0) /\
  snd (go_ColDateTime64_Infer tzdb c0 [68;97;116;101;84;105;109;101;54;52;40;49;48;41]%N) = true.
Proof. vm_compute. repeat split; reflexivity. Qed.
