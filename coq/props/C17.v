(* C17 — Protocol messages encode and decode symmetrically at every revision.
   Nothing but statements closed by [exact], each followed by Print Assumptions. *)
From CH Require Import model.Messages proofs.PrimProofs proofs.FieldsProofs proofs.MessagesProofs.
From CH Require Import gen.Features gen.Codes gen.Consts.
Open Scope N_scope.

(* every layout message (client hello, server hello, client info, client data header,
   progress, profile, exception, table columns): for every revision v, every well-typed
   value list and every trailing bytes, decoding the encoding gives back the message with
   exactly the fields of revision v and consumes exactly the encoding *)
Theorem layout_roundtrip : forall v l xs rest,
  fields_typed l xs = true ->
  decode_fields v l (encode_fields v l xs ++ rest) = Ok (project v l xs) rest.
Proof. exact fields_roundtrip. Qed.
Print Assumptions layout_roundtrip.

(* a field is on the wire from exactly its revision on, absent before *)
Theorem field_presence : forall v l xs,
  fields_typed l xs = true ->
  encode_fields v l xs =
  concat (map (fun '(f, x) => if gate_in v (fgates f) then enc_field (fk f) x else []) (combine l xs)).
Proof. exact fields_presence. Qed.
Print Assumptions field_presence.

Theorem ClientHello_roundtrip : forall rest xs, fields_typed L_ClientHello xs = true ->
  exists b, encode_ClientHello xs = Z.to_N ClientCodeHello :: b /\
            decode_ClientHello (b ++ rest) = Ok (project 0 L_ClientHello xs) rest.
Proof. exact ClientHello_rt. Qed.
Print Assumptions ClientHello_roundtrip.

Theorem ServerHello_roundtrip : forall v rest xs, fields_typed L_ServerHello xs = true ->
  exists b, encode_ServerHello v xs = Z.to_N ServerCodeHello :: b /\
            decode_ServerHello v (b ++ rest) = Ok (project v L_ServerHello xs) rest.
Proof. exact ServerHello_rt. Qed.
Print Assumptions ServerHello_roundtrip.

Theorem ClientInfo_roundtrip : forall v rest xs, fields_typed L_ClientInfo xs = true ->
  decode_ClientInfo v (encode_ClientInfo v xs ++ rest) = Ok (project v L_ClientInfo xs) rest.
Proof. exact ClientInfo_rt. Qed.
Print Assumptions ClientInfo_roundtrip.

Theorem ClientData_roundtrip : forall v rest xs, fields_typed L_ClientData xs = true ->
  decode_ClientData v (encode_ClientData v xs ++ rest) = Ok (project v L_ClientData xs) rest.
Proof. exact ClientData_rt. Qed.
Print Assumptions ClientData_roundtrip.

Theorem Progress_roundtrip : forall v rest xs, fields_typed L_Progress xs = true ->
  decode_Progress v (encode_Progress v xs ++ rest) = Ok (project v L_Progress xs) rest.
Proof. exact Progress_rt. Qed.
Print Assumptions Progress_roundtrip.

Theorem Profile_roundtrip : forall rest xs, fields_typed L_Profile xs = true ->
  exists b, encode_Profile xs = Z.to_N ServerCodeProfile :: b /\
            decode_Profile (b ++ rest) = Ok (project 0 L_Profile xs) rest.
Proof. exact Profile_rt. Qed.
Print Assumptions Profile_roundtrip.

Theorem Exception_roundtrip : forall rest xs, fields_typed L_Exception xs = true ->
  decode_Exception (encode_Exception xs ++ rest) = Ok (project 0 L_Exception xs) rest.
Proof. exact Exception_rt. Qed.
Print Assumptions Exception_roundtrip.

Theorem TableColumns_roundtrip : forall rest xs, fields_typed L_TableColumns xs = true ->
  exists b, encode_TableColumns xs = Z.to_N ServerCodeTableColumns :: b /\
            decode_TableColumns (b ++ rest) = Ok (project 0 L_TableColumns xs) rest.
Proof. exact TableColumns_rt. Qed.
Print Assumptions TableColumns_roundtrip.

(* messages without feature gates come back unchanged *)
Theorem ungated_identity : forall v l xs,
  forallb (fun f => match fgates f with [] => true | _ => false end) l = true ->
  fields_typed l xs = true -> project v l xs = xs.
Proof. exact project_nogate. Qed.
Print Assumptions ungated_identity.

(* query with client info, settings and parameters *)
Theorem Query_roundtrip : forall v q rest,
  query_ok q = true -> gate v FeatureSettingsSerializedAsStrings = true ->
  exists b, encode_Query v q = Z.to_N ClientCodeQuery :: b /\
            decode_Query v (b ++ rest) = Ok (project_Query v q) rest.
Proof. exact Query_rt. Qed.
Print Assumptions Query_roundtrip.

(* the rejecting branch: below settings-as-strings the library's decoder is its explicit error *)
Theorem query_unsupported_below : forall v s,
  gate v FeatureSettingsSerializedAsStrings = false -> is_ok (decode_Query v s) = false.
Proof. exact Query_unsupported_below. Qed.
Print Assumptions query_unsupported_below.

(* block info and block header *)
Theorem BlockInfo_roundtrip : forall i0 i rest,
  in_i32 (bi_bucket i) -> decode_BlockInfo i0 (encode_BlockInfo i ++ rest) = Ok i rest.
Proof. exact BlockInfo_rt. Qed.
Print Assumptions BlockInfo_roundtrip.

Theorem BlockHeader_roundtrip : forall v i cols rows rest,
  in_i32 (bi_bucket i) -> (0 <= cols <= maxColumnsInBlock)%Z -> (0 <= rows <= maxRowsInBLock)%Z ->
  decode_BlockHeader v (encode_BlockHeader v i cols rows ++ rest)
  = Ok ((if gate v FeatureBlockInfo then i else blank_block_info), cols, rows) rest.
Proof. exact BlockHeader_rt. Qed.
Print Assumptions BlockHeader_roundtrip.

(* the fuelled loops of the model are the unbounded Go loops: fuel never runs out *)
Theorem BlockInfo_loop_total : forall i s, decode_BlockInfo i s <> Err EFuel.
Proof. exact BlockInfo_never_fuel. Qed.
Print Assumptions BlockInfo_loop_total.

(* tie to the source: the sequence of (feature gates, primitive call) of every
   Encode/Decode function, re-read from /repo by the translator on this run, is the one the
   layouts above describe — same gates, same order, on both sides *)
Theorem gate_signatures_match_source : gatesigs_ok = true.
Proof. vm_compute. reflexivity. Qed.
Print Assumptions gate_signatures_match_source.

(* non-vacuity: a concrete query with settings, parameters and a span meets the hypotheses
   and round-trips by computation at two revisions on either side of several gates *)
Definition ex_info : list fv :=
  [FN 1; FStr [117]; FStr [113; 49]; FStr [49; 50; 55]; FZ 1700000000; FN 1; FStr []; FStr [104]; FStr [99; 104];
   FZ 1; FZ 2; FZ 54460; FStr [107]; FZ 3; FZ 7;
   FSpan (Some {| sp_trace := [1;2;3;4;5;6;7;8;9;10;11;12;13;14;15;16]; sp_span := [1;2;3;4;5;6;7;8];
                  sp_state := [97; 61; 98]; sp_flags := 1 |});
   FB true; FZ 2; FZ 1].
Definition ex_query : query :=
  {| q_id := [113]; q_info := ex_info;
     q_settings := [{| s_key := [97]; s_val := [49]; s_imp := true; s_cust := false; s_obs := false |}];
     q_secret := [115]; q_stage := 2; q_comp := 1; q_body := [83; 69; 76];
     q_params := [([112], [39; 120; 39])] |}.
Example query_nonvacuous :
  query_ok ex_query = true /\
  (forall v, In v [54429; 54441; 54450; 54460; 54475] ->
     decode_Query v (tl (encode_Query v ex_query)) = Ok (project_Query v ex_query) []).
Proof. split; [vm_compute; reflexivity|]. intros v [<-|[<-|[<-|[<-|[<-|[]]]]]]; vm_compute; reflexivity. Qed.
