(* C01 — Block encode -> decode is the identity for every column type and nesting.
   Nothing but statements closed by [exact], each followed by Print Assumptions. *)
From CH Require Import model.Columns model.ColState model.Block model.Messages proofs.PrimProofs proofs.ColumnsProofs proofs.ColumnsProofs2 proofs.BlockProofs
  proofs.ColStateProofs proofs.ColStateProofs2.
From CH Require Import gen.Features gen.Consts.
Open Scope N_scope.
Open Scope list_scope.

(* every type tree (any nesting of Array / Nullable / LowCardinality / Map / Tuple / Named over any
   element type), every well-formed contents with any number of rows within the library's row cap,
   either build on either side, any trailing bytes: DecodeColumn (EncodeColumn d) = d, exactly consumed *)
Theorem col_roundtrip : forall t, wf_ty t = true -> forall b b' n d rest,
  n <= max_rows -> wfd t n d -> dec b' t n (enc b t d ++ rest) = Ok d rest.
Proof. exact ColumnsProofs.col_roundtrip. Qed.
Print Assumptions col_roundtrip.

(* with the state prefix, as Block.EncodeRawBlock / Results.DecodeResult run it (nothing is written
   or read for a column without rows) *)
Theorem column_roundtrip : forall t b b' n d rest,
  wf_ty t = true -> n <= max_rows -> wfd t n d -> rows t d = n ->
  dec_column b' t n (enc_column b t d ++ rest) = Ok d rest.
Proof. exact ColumnsProofs2.column_roundtrip. Qed.
Print Assumptions column_roundtrip.

(* the decoded column has the same contents, hence the same Rows() and the same Row(i) for every i *)
Theorem decoded_rows_equal : forall t b b' n d rest d' r,
  wf_ty t = true -> n <= max_rows -> wfd t n d -> rows t d = n ->
  dec_column b' t n (enc_column b t d ++ rest) = Ok d' r ->
  rows t d' = rows t d /\ forall i, row t d' i = row t d i.
Proof.
  intros t b b' n d rest d' r Hw Hn Hd Hr H.
  rewrite (ColumnsProofs2.column_roundtrip t b b' n d rest Hw Hn Hd Hr) in H. injection H as <- _. now split.
Qed.
Print Assumptions decoded_rows_equal.

(* at the level of Go row values, for every nesting: a column that holds the rows [l] (built by any history of
   appends, C16 append_once) encodes, after Prepare, to bytes that either build decodes to a column whose
   accessors report exactly [l] *)
Theorem values_roundtrip : forall b b' t d l d' rest,
  c16_ty t = true -> inv (t, d) l -> prepare t d = Some d' -> small t d' -> rows t d' <= max_rows ->
  dec b' t (rows t d') (enc b t d' ++ rest) = Ok d' rest /\ abs t d' = Some l.
Proof.
  intros b b' t d l d' rest Hc [Hg Ha] Hp Hs Hr.
  destruct (encode_readback b t d d' Hc Hg Hp) as [_ [Habs Hrt]].
  split; [exact (proj1 (Hrt Hs Hr b' rest))|]. cbn [fst snd] in Ha. now rewrite Habs.
Qed.
Print Assumptions values_roundtrip.

(* whole blocks, at every revision: block info (iff the revision has it), column count, row count,
   names, types and contents come back; blank target names are filled in *)
Theorem block_roundtrip : forall conflicts infer_target infer_auto,
  (forall s, conflicts s s = false) ->
  forall b b' v i nrows cols ts bs rest,
  nrows <= max_rows -> (Z.of_nat (length cols) <= maxColumnsInBlock)%Z -> in_i32 (bi_bucket i) ->
  Forall (col_ok infer_target nrows) cols -> Forall2 binds cols ts ->
  encode_block b v i nrows cols = Some bs ->
  decode_block conflicts infer_target infer_auto false b' v ts (bs ++ rest)
  = Ok ((if gate v FeatureBlockInfo then i else blank_block_info),
        Z.of_nat (length cols), Z.of_N nrows, (match cols with [] => ts | _ => cols end)) rest.
Proof. exact BlockProofs.block_roundtrip. Qed.
Print Assumptions block_roundtrip.

(* the state prefix alone *)
Theorem state_roundtrip : forall t rest, dec_state t (enc_state t ++ rest) = Ok tt rest.
Proof. exact ColumnsProofs2.state_roundtrip. Qed.
Print Assumptions state_roundtrip.

(* columns built by Append from scalar rows (what a LowCardinality dictionary is made of) hold
   exactly those rows *)
Theorem appended_rows_read_back : forall t l i, lc_elem t = true -> forallb (has_ty t) l = true ->
  of_rows t l = Some (flat_data t l) /\ row t (flat_data t l) i = nth_error l i /\
  rows t (flat_data t l) = N.of_nat (length l).
Proof. intros t l i H1 H2. repeat split; [now apply of_rows_flat|now apply row_flat|now apply rows_flat]. Qed.
Print Assumptions appended_rows_read_back.

(* the key width chosen for a dictionary of n entries holds every key, and the meta word decodes back to it *)
Theorem lowcardinality_key_width : forall n, n <= max_rows ->
  let key := lc_key_width n in
  wrap64 (Codes.cardinalityUpdateAll + Z.of_N key) mod 256 = key /\
  (3 <? key) = false /\
  N.testbit (wrap64 (Codes.cardinalityUpdateAll + Z.of_N key)) 9 = true /\
  in_i64 (Codes.cardinalityUpdateAll + Z.of_N key) /\
  (forall k, k < n -> k < 256 ^ N.of_nat (key_bytes key)).
Proof. exact lc_key_cases. Qed.
Print Assumptions lowcardinality_key_width.

(* the rejecting branch beyond the row cap *)
Theorem rows_beyond_cap_rejected : forall z s, (maxRowsInBLock < z)%Z -> check_rows z s = Err ELimit.
Proof.
  intros z s H. unfold check_rows. unfold maxRowsInBLock in *.
  replace (z <? 0)%Z with false by lia. replace (100000000 <? z)%Z with true by lia. reflexivity.
Qed.
Print Assumptions rows_beyond_cap_rejected.

(* non-vacuity: a depth-3 column Array(Tuple(LowCardinality(String), Nullable(UInt16))) built by Append,
   prepared, is well formed and round-trips by computation through both builds *)
Definition ex_ty : ty := TArr (TTuple [TLowCard TStr; TNullable (TFix [85] 2)]).
Definition ex_rows : list val :=
  [VArr [VTup [VB [97]; VOpt true (VN 513)]; VTup [VB [98]; VOpt false (VN 0)]; VTup [VB [97]; VOpt true (VN 7)]];
   VArr []; VArr [VTup [VB [99]; VOpt true (VN 65535)]]].
Example c01_nonvacuous :
  wf_ty ex_ty = true /\ forallb (has_ty ex_ty) ex_rows = true /\
  exists d d', of_rows ex_ty ex_rows = Some d /\ prepare ex_ty d = Some d' /\
    rows ex_ty d' = 3 /\
    dec Unsafe ex_ty 3 (enc Safe ex_ty d' ++ [7]) = Ok d' [7] /\
    map (row ex_ty d') [0; 1; 2]%nat = map Some ex_rows.
Proof.
  split; [reflexivity|]. split; [reflexivity|].
  eexists. eexists. split; [vm_compute; reflexivity|]. split; [vm_compute; reflexivity|].
  split; [reflexivity|]. split; vm_compute; reflexivity.
Qed.

(* ====================================================================================================== *)
(* Through automatic inference: Results.Auto() (decodeAuto for the first block, DecodeResult on the columns
   it kept for every later block), over the real instances of model/Results.v — conflicts_b (ColumnType.Conflicts),
   infer_target (the Inferable hook of every column kind) and infer_auto (ColAuto.Infer) — for every type tree
   whose printed type ColAuto.Infer supports (model/AutoClass.v: [inferable]).  [zone] is time.LoadLocation,
   [tl] strings.ToLower; both are arbitrary. *)
From CH Require Import model.TypeStr model.Results model.AutoClass proofs.AutoRoundtripProofs.

(* a printed type infers itself: the column ColAuto.Infer creates from Type() of an inferable column is that
   column kind again, with the same parameters ([norm t] is [t] up to the names of Decimal leaves, see below) *)
Theorem type_str_infers_itself : forall zone tl t, inferable zone t = true ->
  infer_auto zone tl (type_str t) = Some (norm zone t).
Proof. exact AutoRoundtripProofs.type_str_infers_itself. Qed.
Print Assumptions type_str_infers_itself.

(* the created column reports a type that does not conflict with the type it was created from, either way round *)
Theorem norm_no_conflict : forall zone (tl : bytes -> bytes) t, inferable zone t = true ->
  conflicts_b (type_str t) (type_str (norm zone t)) = false /\
  conflicts_b (type_str (norm zone t)) (type_str t) = false.
Proof. exact AutoRoundtripProofs.norm_no_conflict. Qed.
Print Assumptions norm_no_conflict.

(* ... and encodes, decodes, resets and is read exactly as the original column *)
Theorem norm_same_codec : forall zone (tl : bytes -> bytes) t, inferable zone t = true ->
  (forall b d, enc b (norm zone t) d = enc b t d) /\ enc_state (norm zone t) = enc_state t /\
  (forall b n s, dec b (norm zone t) n s = dec b t n s) /\ dec_state (norm zone t) = dec_state t /\
  empty (norm zone t) = empty t /\
  (forall d, rows (norm zone t) d = rows t d) /\ (forall d i, row (norm zone t) d i = row t d i).
Proof. exact AutoRoundtripProofs.norm_same_codec. Qed.
Print Assumptions norm_same_codec.

(* where [norm] is not the identity: a column whose type is spelled Decimal(P, S) or DecimalN(S) comes back as
   the DecimalN column of the same width, whose Type() is the bare DecimalN; every other fixed-width leaf
   (DateTime('zone'), DateTime64(p, 'zone'), Interval kinds, generated kinds) comes back under its own name *)
Theorem norm_leaf : forall zone name w, inferable zone (TFix name w) = true ->
  norm zone (TFix name w) = TFix name w \/
  exists T go, In (T, go) decimal_n_cols /\ norm zone (TFix name w) = TFix T w /\
               (exists pr sc, name = decimal_str pr sc) \/
               In (T, go) decimal_n_cols /\ norm zone (TFix name w) = TFix T w /\ exists sc, name = decimal_n_str T sc.
Proof. exact AutoRoundtripProofs.norm_leaf. Qed.
Print Assumptions norm_leaf.

(* a later block: the column ColAuto created adopts the printed type again *)
Theorem norm_infer_target : forall zone tl t, inferable zone t = true ->
  infer_target zone tl (norm zone t) (type_str t) = Some (norm zone t).
Proof. exact AutoRoundtripProofs.norm_infer_target. Qed.
Print Assumptions norm_infer_target.

(* first block, every revision, both builds on both sides, any trailing bytes: an encoded block of inferable
   column types decodes through Results.Auto() to the same block info, column count, row count, names, types
   (up to norm) and contents *)
Theorem block_roundtrip_auto : forall zone tl b b' v i nrows cols bs rest,
  nrows <= max_rows -> (Z.of_nat (length cols) <= maxColumnsInBlock)%Z -> in_i32 (bi_bucket i) ->
  Forall (col_ok_auto zone nrows) cols ->
  encode_block b v i nrows cols = Some bs ->
  decode_block conflicts_b (infer_target zone tl) (infer_auto zone tl) true b' v [] (bs ++ rest)
  = Ok ((if gate v FeatureBlockInfo then i else blank_block_info),
        Z.of_nat (length cols), Z.of_N nrows, map (norm_col zone) cols) rest.
Proof. exact AutoRoundtripProofs.block_roundtrip_auto. Qed.
Print Assumptions block_roundtrip_auto.

(* every later block of the same schema, against the columns an earlier block left in the Results (whatever
   they hold): the same statement; goes through Results.DecodeResult with the real Conflicts and Infer hooks *)
Theorem block_roundtrip_auto_next : forall zone tl b b' v i nrows cols ts bs rest,
  nrows <= max_rows -> (Z.of_nat (length cols) <= maxColumnsInBlock)%Z -> in_i32 (bi_bucket i) ->
  Forall (col_ok_auto zone nrows) cols -> Forall2 (holds zone) cols ts -> cols <> [] ->
  encode_block b v i nrows cols = Some bs ->
  decode_block conflicts_b (infer_target zone tl) (infer_auto zone tl) true b' v ts (bs ++ rest)
  = Ok ((if gate v FeatureBlockInfo then i else blank_block_info),
        Z.of_nat (length cols), Z.of_N nrows, map (norm_col zone) cols) rest.
Proof. exact AutoRoundtripProofs.block_roundtrip_auto_next. Qed.
Print Assumptions block_roundtrip_auto_next.

(* at the level of Go row values: columns holding the rows [snd s] (built by any history of appends), prepared
   and encoded by EncodeBlock, come out of Results.Auto() as columns whose accessors report exactly those rows
   under the caller's names *)
Theorem values_roundtrip_auto : forall zone tl b b' v i nrows srcs cols bs rest,
  nrows <= max_rows -> (Z.of_nat (length cols) <= maxColumnsInBlock)%Z -> in_i32 (bi_bucket i) ->
  Forall2 (src_ok zone nrows) srcs cols ->
  encode_block b v i nrows cols = Some bs ->
  exists cols',
    decode_block conflicts_b (infer_target zone tl) (infer_auto zone tl) true b' v [] (bs ++ rest)
    = Ok ((if gate v FeatureBlockInfo then i else blank_block_info),
          Z.of_nat (length cols), Z.of_N nrows, cols') rest /\
    Forall2 (read_back zone nrows) srcs cols'.
Proof. exact AutoRoundtripProofs.values_roundtrip_auto. Qed.
Print Assumptions values_roundtrip_auto.

(* non-vacuity: a five-column block — Array(Nullable(DateTime64(3, 'UTC'))), Enum8('x' = 1, 'y y' = 2),
   Array(LowCardinality(String)), Decimal(9, 2) (comes back as Decimal32) and Map(String, String) — the deepest
   trees ColAuto.Infer supports (it has no Tuple, no Map other than String/String, no Array(Array), no
   Array(Enum)) is in the class, and round-trips by computation at a revision with block info and custom
   serialization flag, first and second block, Safe encoder against Unsafe decoder *)
Definition ex_zone (q : bytes) : option bytes := if bytes_eqb q (s2b "UTC") then Some (s2b "UTC") else None.
Definition ex_tl (s : bytes) : bytes := s.
Definition ex_dt64 : ty := TFix (s2b "DateTime64(3, 'UTC')") 8.
Definition ex_enum : ty := TEnum (s2b "Enum8('x' = 1, 'y y' = 2)") 1 [(s2b "x", 1%Z); (s2b "y y", 2%Z)].
Definition ex_auto_cols : list Block.col :=
  [ {| c_name := s2b "ts" ; c_ty := TArr (TNullable ex_dt64) ;
       c_data := DArr [2; 2; 3] (DNullable [0; 1; 0] (DFix [1700000000123; 0; 5])) |} ;
    {| c_name := s2b "e" ; c_ty := ex_enum ; c_data := DEnum [s2b "y y"; s2b "x"; s2b "x"] [2; 1; 1] |} ;
    {| c_name := s2b "tags" ; c_ty := TArr (TLowCard TStr) ;
       c_data := DArr [1; 1; 3] (DLowCard [VB [97]; VB [98]; VB [97]] (DBytes [[97]; [98]]) 0 [0; 1; 0]) |} ;
    {| c_name := s2b "d" ; c_ty := TFix (s2b "Decimal(9, 2)") 4 ; c_data := DFix [12345; 0; 4294967295] |} ;
    {| c_name := s2b "m" ; c_ty := TMap TStr TStr ;
       c_data := DMap [1; 1; 2] (DBytes [[107]; [107; 50]]) (DBytes [[118]; []]) |} ].
Example c01_auto_nonvacuous :
  forallb (fun c => inferable ex_zone (c_ty c) && wf_ty (c_ty c)) ex_auto_cols = true /\
  map (fun c => b2s (type_str (norm ex_zone (c_ty c)))) ex_auto_cols
  = ["Array(Nullable(DateTime64(3, 'UTC')))"; "Enum8('x' = 1, 'y y' = 2)"; "Array(LowCardinality(String))";
     "Decimal32"; "Map(String, String)"]%string /\
  map (fun c => prepare (c_ty c) (c_data c)) ex_auto_cols = map (fun c => Some (c_data c)) ex_auto_cols /\
  exists bs, encode_block Safe 54460 {| bi_overflows := true ; bi_bucket := (-1)%Z |} 3 ex_auto_cols = Some bs /\
    decode_block conflicts_b (infer_target ex_zone ex_tl) (infer_auto ex_zone ex_tl) true Unsafe 54460 [] (bs ++ [7])
    = Ok ({| bi_overflows := true ; bi_bucket := (-1)%Z |}, 5%Z, 3%Z, map (norm_col ex_zone) ex_auto_cols) [7] /\
    decode_block conflicts_b (infer_target ex_zone ex_tl) (infer_auto ex_zone ex_tl) true Unsafe 54460
                 (map (fun c => {| c_name := c_name c ; c_ty := norm ex_zone (c_ty c) ; c_data := empty (c_ty c) |}) ex_auto_cols)
                 (bs ++ [7])
    = Ok ({| bi_overflows := true ; bi_bucket := (-1)%Z |}, 5%Z, 3%Z, map (norm_col ex_zone) ex_auto_cols) [7].
Proof.
  split; [vm_compute; reflexivity|]. split; [vm_compute; reflexivity|]. split; [vm_compute; reflexivity|].
  eexists. split; [vm_compute; reflexivity|]. split; vm_compute; reflexivity.
Qed.

(* ====================================================================================================== *)
(* Tuple columns with adopting elements into typed targets (extension C18y).  ColTuple.Infer used to hand the whole
   string "Tuple(String, DateTime64(3))" to every Inferable element (and ColNamed.Infer forwarded it unchanged), so that a
   block the library encoded from ColTuple{ColStr, ColDateTime64} could not be decoded into a typed target of the same
   shape.  Repaired in /repo (element i adopts argument i of splitTypeArgs, ColNamed strips its name, a different number
   of arguments is an error); model/Results.v [infer_st] follows.  [tuple_ok] (proofs/TupleRoundtripProofs.v) is the class
   of column trees concerned: columns that are not Inferable; everything ColAuto round-trips with its own parameters
   (Enum8/16, DateTime('z'), DateTime64(p, 'z'), Interval kinds, Array / Nullable / LowCardinality over them); and Tuple,
   Named, Array, Nullable, LowCardinality and Map over members of the class whose printed types are balanced arguments
   ([arg_str_ok]: quotes and parentheses closed, no comma outside them, no white space at either end - a decidable
   condition on the bytes of Type(), needed because an Enum's type string is whatever the caller wrote). *)
From CH Require Import proofs.ResultsProofs proofs.ResultsProofs2 proofs.TupleRoundtripProofs.

(* such a column's Infer accepts its own Type() and leaves the column as it is: the premise [col_ok] of
   [block_roundtrip] that excluded tuples with adopting elements before the repair *)
Theorem tuple_adopts_own_type : forall zone tl t, tuple_ok zone t -> infer_target zone tl t (type_str t) = Some t.
Proof. exact tuple_ok_infer_target. Qed.
Print Assumptions tuple_adopts_own_type.

(* every revision, both builds on both sides, any trailing bytes: a block whose columns are of the class decodes into
   typed targets of the same types to the same block info, counts, names, types and contents *)
Theorem tuple_block_roundtrip_typed : forall zone tl b b' v i nrows cols ts bs rest,
  nrows <= max_rows -> (Z.of_nat (length cols) <= maxColumnsInBlock)%Z -> in_i32 (bi_bucket i) ->
  Forall (col_ok_tuple zone nrows) cols -> Forall2 binds cols ts ->
  encode_block b v i nrows cols = Some bs ->
  decode_block conflicts_b (infer_target zone tl) (infer_auto zone tl) false b' v ts (bs ++ rest)
  = Ok ((if gate v FeatureBlockInfo then i else blank_block_info),
        Z.of_nat (length cols), Z.of_N nrows, (match cols with [] => ts | _ => cols end)) rest.
Proof. exact tuple_block_roundtrip_typed_proof. Qed.
Print Assumptions tuple_block_roundtrip_typed.

(* ... and into targets of the same SHAPE (C18's [fits]: the type tree up to what Infer replaces) whatever precision,
   zone or enum definitions their leaves were built with and whatever they hold: every target ends up with the name,
   type and contents of its own column *)
Theorem tuple_block_binds_any_parameters : forall zone tl b b' v nrows cols ts bs rest,
  nrows <= max_rows -> Forall (col_ok_tuple zone nrows) cols -> Forall2 fits cols ts ->
  enc_cols b v nrows cols = Some bs ->
  bind_result zone tl b' v (N.of_nat (length cols)) nrows ts (bs ++ rest) = (map typed_target cols, BOk rest).
Proof. exact tuple_block_binds_any_parameters_proof. Qed.
Print Assumptions tuple_block_binds_any_parameters.

(* non-vacuity: Tuple(String, DateTime64(3), Enum8('a' = 1, 'b' = 2)) is in the class, and a block holding it decodes
   by computation into a target built as Tuple(String, DateTime64(9, 'UTC'), <blank ColEnum>) holding an old row -
   precision, zone and definitions adopted element by element; a named and a nested tuple are in the class as well *)
Definition ex_tuple_ty : ty :=
  TTuple [TStr; TFix (s2b "DateTime64(3)") 8; TEnum (s2b "Enum8('a' = 1, 'b' = 2)") 1 [(s2b "a", 1%Z); (s2b "b", 2%Z)]].
Definition ex_tuple_col : Block.col :=
  {| c_name := s2b "t" ; c_ty := ex_tuple_ty ;
     c_data := DTuple [DBytes [s2b "x"; s2b "yy"]; DFix [1700000000123; 5]; DEnum [s2b "b"; s2b "a"] [2; 1]] |}.
Definition ex_tuple_target : Block.col :=
  {| c_name := [] ;
     c_ty := TTuple [TStr; TFix (s2b "DateTime64(9, 'UTC')") 8; TEnum [] 2 []] ;
     c_data := DTuple [DBytes [s2b "old"]; DFix [9]; DEnum [s2b "old"] [7]] |}.
Definition ex_tuple_named : ty :=
  TTuple [TNamed (s2b "s") TStr; TNamed (s2b "e") (TEnum (s2b "Enum8('a' = 1, 'b' = 2)") 1 [(s2b "a", 1%Z); (s2b "b", 2%Z)])].
Definition ex_tuple_nested : ty :=
  TTuple [TStr; TTuple [TFix (s2b "DateTime('UTC')") 4; TNullable (TFix (s2b "DateTime64(3, 'UTC')") 8)]].
Example c01_tuple_nonvacuous :
  tuple_ok ex_zone ex_tuple_ty /\ tuple_ok ex_zone ex_tuple_named /\ tuple_ok ex_zone ex_tuple_nested /\
  wf_ty ex_tuple_ty = true /\
  b2s (type_str ex_tuple_ty) = "Tuple(String, DateTime64(3), Enum8('a' = 1, 'b' = 2))"%string /\
  b2s (type_str ex_tuple_named) = "Tuple(s String, e Enum8('a' = 1, 'b' = 2))"%string /\
  prepare ex_tuple_ty (c_data ex_tuple_col) = Some (c_data ex_tuple_col) /\
  skel (c_ty ex_tuple_target) = skel ex_tuple_ty /\
  exists bs, encode_block Safe 54460 {| bi_overflows := true ; bi_bucket := (-1)%Z |} 2 [ex_tuple_col] = Some bs /\
    decode_block conflicts_b (infer_target ex_zone ex_tl) (infer_auto ex_zone ex_tl) false Unsafe 54460 [ex_tuple_target] (bs ++ [7])
    = Ok ({| bi_overflows := true ; bi_bucket := (-1)%Z |}, 1%Z, 2%Z, [ex_tuple_col]) [7].
Proof.
  assert (Hleaf : forall t, inferable ex_zone t = true /\ norm ex_zone t = t -> tuple_ok ex_zone t)
    by (intros t H; destruct t; cbn [tuple_ok]; right; left; exact H).
  split.
  { cbn [tuple_ok ex_tuple_ty]. right. right. split; [discriminate|]. cbn [fold_right].
    repeat split; try (vm_compute; reflexivity).
    - left. reflexivity.
    - apply Hleaf. split; vm_compute; reflexivity.
    - apply Hleaf. split; vm_compute; reflexivity. }
  split.
  { cbn [tuple_ok ex_tuple_named]. right. right. split; [discriminate|]. cbn [fold_right].
    repeat split; try (vm_compute; reflexivity).
    - right. right. cbn [tuple_ok]. left. reflexivity.
    - right. right. apply Hleaf. split; vm_compute; reflexivity. }
  split.
  { cbn [tuple_ok ex_tuple_nested]. right. right. split; [discriminate|]. cbn [fold_right].
    repeat split; try (vm_compute; reflexivity).
    - left. reflexivity.
    - right. right. split; [discriminate|]. cbn [fold_right]. repeat split; try (vm_compute; reflexivity).
      + apply Hleaf. split; vm_compute; reflexivity.
      + apply Hleaf. split; vm_compute; reflexivity. }
  split; [reflexivity|]. split; [vm_compute; reflexivity|]. split; [vm_compute; reflexivity|].
  split; [vm_compute; reflexivity|]. split; [vm_compute; reflexivity|].
  eexists. split; [vm_compute; reflexivity|]. vm_compute. reflexivity.
Qed.
