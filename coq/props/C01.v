(* C01 — Block encode -> decode is the identity for every column type and nesting.
   Nothing but statements closed by [exact], each followed by Print Assumptions. *)
From CH Require Import model.Columns model.ColState model.Block model.Messages proofs.PrimProofs proofs.ColumnsProofs proofs.ColumnsProofs2 proofs.BlockProofs
  proofs.ColStateProofs proofs.ColStateProofs2.
From CH Require Import gen.Features gen.Consts.
Open Scope N_scope.
Open Scope list_scope.

(* every type tree (any nesting of Array / Nullable / LowCardinality / Map / Tuple / Named over any
   element type), every well-formed contents with any number of rows within the library's row cap,
   either build on either side, any trailing bytes: DecodeColumn (EncodeColumn d) = d, exactly consumed *)
Theorem col_roundtrip : forall t, wf_ty t = true -> forall b b' n d rest,
  n <= max_rows -> wfd t n d -> dec b' t n (enc b t d ++ rest) = Ok d rest.
Proof. exact ColumnsProofs.col_roundtrip. Qed.
Print Assumptions col_roundtrip.

(* with the state prefix, as Block.EncodeRawBlock / Results.DecodeResult run it (nothing is written
   or read for a column without rows) *)
Theorem column_roundtrip : forall t b b' n d rest,
  wf_ty t = true -> n <= max_rows -> wfd t n d -> rows t d = n ->
  dec_column b' t n (enc_column b t d ++ rest) = Ok d rest.
Proof. exact ColumnsProofs2.column_roundtrip. Qed.
Print Assumptions column_roundtrip.

(* the decoded column has the same contents, hence the same Rows() and the same Row(i) for every i *)
Theorem decoded_rows_equal : forall t b b' n d rest d' r,
  wf_ty t = true -> n <= max_rows -> wfd t n d -> rows t d = n ->
  dec_column b' t n (enc_column b t d ++ rest) = Ok d' r ->
  rows t d' = rows t d /\ forall i, row t d' i = row t d i.
Proof.
  intros t b b' n d rest d' r Hw Hn Hd Hr H.
  rewrite (ColumnsProofs2.column_roundtrip t b b' n d rest Hw Hn Hd Hr) in H. injection H as <- _. now split.
Qed.
Print Assumptions decoded_rows_equal.

(* at the level of Go row values, for every nesting: a column that holds the rows [l] (built by any history of
   appends, C16 append_once) encodes, after Prepare, to bytes that either build decodes to a column whose
   accessors report exactly [l] *)
Theorem values_roundtrip : forall b b' t d l d' rest,
  c16_ty t = true -> inv (t, d) l -> prepare t d = Some d' -> small t d' -> rows t d' <= max_rows ->
  dec b' t (rows t d') (enc b t d' ++ rest) = Ok d' rest /\ abs t d' = Some l.
Proof.
  intros b b' t d l d' rest Hc [Hg Ha] Hp Hs Hr.
  destruct (encode_readback b t d d' Hc Hg Hp) as [_ [Habs Hrt]].
  split; [exact (proj1 (Hrt Hs Hr b' rest))|]. cbn [fst snd] in Ha. now rewrite Habs.
Qed.
Print Assumptions values_roundtrip.

(* whole blocks, at every revision: block info (iff the revision has it), column count, row count,
   names, types and contents come back; blank target names are filled in *)
Theorem block_roundtrip : forall conflicts infer_target infer_auto,
  (forall s, conflicts s s = false) ->
  forall b b' v i nrows cols ts bs rest,
  nrows <= max_rows -> (Z.of_nat (length cols) <= maxColumnsInBlock)%Z -> in_i32 (bi_bucket i) ->
  Forall (col_ok infer_target nrows) cols -> Forall2 binds cols ts ->
  encode_block b v i nrows cols = Some bs ->
  decode_block conflicts infer_target infer_auto false b' v ts (bs ++ rest)
  = Ok ((if gate v FeatureBlockInfo then i else blank_block_info),
        Z.of_nat (length cols), Z.of_N nrows, (match cols with [] => ts | _ => cols end)) rest.
Proof. exact BlockProofs.block_roundtrip. Qed.
Print Assumptions block_roundtrip.

(* the state prefix alone *)
Theorem state_roundtrip : forall t rest, dec_state t (enc_state t ++ rest) = Ok tt rest.
Proof. exact ColumnsProofs2.state_roundtrip. Qed.
Print Assumptions state_roundtrip.

(* columns built by Append from scalar rows (what a LowCardinality dictionary is made of) hold
   exactly those rows *)
Theorem appended_rows_read_back : forall t l i, lc_elem t = true -> forallb (has_ty t) l = true ->
  of_rows t l = Some (flat_data t l) /\ row t (flat_data t l) i = nth_error l i /\
  rows t (flat_data t l) = N.of_nat (length l).
Proof. intros t l i H1 H2. repeat split; [now apply of_rows_flat|now apply row_flat|now apply rows_flat]. Qed.
Print Assumptions appended_rows_read_back.

(* the key width chosen for a dictionary of n entries holds every key, and the meta word decodes back to it *)
Theorem lowcardinality_key_width : forall n, n <= max_rows ->
  let key := lc_key_width n in
  wrap64 (Codes.cardinalityUpdateAll + Z.of_N key) mod 256 = key /\
  (3 <? key) = false /\
  N.testbit (wrap64 (Codes.cardinalityUpdateAll + Z.of_N key)) 9 = true /\
  in_i64 (Codes.cardinalityUpdateAll + Z.of_N key) /\
  (forall k, k < n -> k < 256 ^ N.of_nat (key_bytes key)).
Proof. exact lc_key_cases. Qed.
Print Assumptions lowcardinality_key_width.

(* the rejecting branch beyond the row cap *)
Theorem rows_beyond_cap_rejected : forall z s, (maxRowsInBLock < z)%Z -> check_rows z s = Err ELimit.
Proof.
  intros z s H. unfold check_rows. unfold maxRowsInBLock in *.
  replace (z <? 0)%Z with false by lia. replace (100000000 <? z)%Z with true by lia. reflexivity.
Qed.
Print Assumptions rows_beyond_cap_rejected.

(* non-vacuity: a depth-3 column Array(Tuple(LowCardinality(String), Nullable(UInt16))) built by Append,
   prepared, is well formed and round-trips by computation through both builds *)
Definition ex_ty : ty := TArr (TTuple [TLowCard TStr; TNullable (TFix [85] 2)]).
Definition ex_rows : list val :=
  [VArr [VTup [VB [97]; VOpt true (VN 513)]; VTup [VB [98]; VOpt false (VN 0)]; VTup [VB [97]; VOpt true (VN 7)]];
   VArr []; VArr [VTup [VB [99]; VOpt true (VN 65535)]]].
Example c01_nonvacuous :
  wf_ty ex_ty = true /\ forallb (has_ty ex_ty) ex_rows = true /\
  exists d d', of_rows ex_ty ex_rows = Some d /\ prepare ex_ty d = Some d' /\
    rows ex_ty d' = 3 /\
    dec Unsafe ex_ty 3 (enc Safe ex_ty d' ++ [7]) = Ok d' [7] /\
    map (row ex_ty d') [0; 1; 2]%nat = map Some ex_rows.
Proof.
  split; [reflexivity|]. split; [reflexivity|].
  eexists. eexists. split; [vm_compute; reflexivity|]. split; [vm_compute; reflexivity|].
  split; [reflexivity|]. split; vm_compute; reflexivity.
Qed.
