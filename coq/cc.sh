#!/bin/sh
# cc.sh file.v [timeout] : compile under a timeout, print EXIT, first error, slow sentences, last sentence reached
f=$1
timeout ${2:-300} coqc -time -Q /verif/coq CH -w -notation-overridden,-ambiguous-paths $f > /tmp/cc_$$.log 2>&1
rc=$?
echo EXIT $rc
grep -v " secs " /tmp/cc_$$.log | head -${3:-25}
awk '/ secs / { for(i=1;i<=NF;i++) if ($i=="secs") { if ($(i-1)+0 > 2.0) print } }' /tmp/cc_$$.log | head
if [ $rc = 124 ]; then echo "LAST:"; grep " secs " /tmp/cc_$$.log | tail -1; fi
rm -f /tmp/cc_$$.log
