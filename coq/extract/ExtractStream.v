From CH Require Import model.GlueStream.
Require Extraction. Require ExtrOcamlBasic.
Extraction Language OCaml.
Extraction "eval_stream.ml" run_line.
