From CH Require Import model.GlueTy.
Require Extraction.
Require ExtrOcamlBasic.
Extraction Language OCaml.
Extraction "eval_ty.ml" run_line.
