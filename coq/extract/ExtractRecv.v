From CH Require Import model.GlueRecv.
Require Extraction. Require ExtrOcamlBasic.
Extraction Language OCaml.
Extraction "eval_recv.ml" run_line.
