From CH Require Import model.GlueHist.
Require Extraction.
Require ExtrOcamlBasic.
Extraction Language OCaml.
Extraction "eval_hist.ml" run_line.
