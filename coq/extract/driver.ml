(* Generic line driver for an extracted [run_line : N list -> N list].
   N, positive stay the extracted inductive types (no ExtrOcamlNatInt/ZInt). *)
open Eval

let rec pos_of_int (n : int) : positive =
  if n = 1 then XH
  else if n land 1 = 0 then XO (pos_of_int (n lsr 1))
  else XI (pos_of_int (n lsr 1))
let n_of_int (n : int) : n = if n = 0 then N0 else Npos (pos_of_int n)
let rec int_of_pos (p : positive) : int =
  match p with XH -> 1 | XO q -> 2 * int_of_pos q | XI q -> 2 * int_of_pos q + 1
let int_of_n (x : n) : int = match x with N0 -> 0 | Npos p -> int_of_pos p

let table = Array.init 256 n_of_int

let () =
  let buf = Buffer.create 65536 in
  (try
     while true do
       let line = input_line stdin in
       let l = ref [] in
       for i = String.length line - 1 downto 0 do
         l := table.(Char.code line.[i]) :: !l
       done;
       let out = run_line !l in
       Buffer.clear buf;
       List.iter (fun c -> Buffer.add_char buf (Char.chr (int_of_n c land 255))) out;
       print_string (Buffer.contents buf);
       print_newline ()
     done
   with End_of_file -> ());
  Stdlib.flush stdout
