From CH Require Import model.GlueRes.
Require Extraction.
Require ExtrOcamlBasic.
Extraction Language OCaml.
Extraction "eval_res.ml" run_line.
