From CH Require Import model.GlueCmp.
Require Extraction.
Require ExtrOcamlBasic.
Extraction Language OCaml.
Extraction "eval_cmp.ml" run_line.
