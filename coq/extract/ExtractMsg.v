From CH Require Import model.GlueMsg.
Require Extraction.
Require ExtrOcamlBasic.
Extraction Language OCaml.
Extraction "eval_msg.ml" run_line.
