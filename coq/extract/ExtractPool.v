From CH Require Import model.GluePool.
Require Extraction.
Require ExtrOcamlBasic.
Extraction Language OCaml.
Extraction "eval_pool.ml" run_line.
