#!/bin/sh
# build one extracted evaluator per family:  build.sh Msg  ->  build/eval_msg
set -e
cd "$(dirname "$0")"
fam=$1
low=$(echo "$fam" | tr 'A-Z' 'a-z')
mkdir -p build/$low
cd build/$low
coqc -Q ../../.. CH ../../Extract$fam.v >/dev/null
rm -f Extract$fam.vo Extract$fam.glob .Extract$fam.aux ../../Extract$fam.vo ../../Extract$fam.glob ../../.Extract$fam.aux ../../Extract$fam.vos ../../Extract$fam.vok
mv eval_$low.ml eval.ml; mv eval_$low.mli eval.mli
cp ../../driver.ml .
ocamlfind ocamlopt -O3 -w -a eval.mli eval.ml driver.ml -o ../eval_$low 2>/dev/null || ocamlfind ocamlopt -w -a eval.mli eval.ml driver.ml -o ../eval_$low
