From CH Require Import model.GlueDo.
Require Extraction.
Require ExtrOcamlBasic.
Extraction Language OCaml.
Extraction "eval_do.ml" run_line.
