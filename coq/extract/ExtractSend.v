From CH Require Import model.GlueSend.
Require Extraction.
Require ExtrOcamlBasic.
Extraction Language OCaml.
Extraction "eval_send.ml" run_line.
