From CH Require Import model.GlueAuto.
Require Extraction. Require ExtrOcamlBasic.
Extraction Language OCaml.
Extraction "eval_auto.ml" run_line.
