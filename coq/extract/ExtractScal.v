From CH Require Import model.GlueScal.
Require Extraction.
Require ExtrOcamlBasic.
Extraction Language OCaml.
Extraction "eval_scal.ml" run_line.
