From CH Require Import model.GlueHs.
Require Extraction.
Require ExtrOcamlBasic.
Extraction Language OCaml.
Extraction "eval_hs.ml" run_line.
