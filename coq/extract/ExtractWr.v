From CH Require Import model.GlueWr.
Require Extraction.
Require ExtrOcamlBasic.
Extraction Language OCaml.
Extraction "eval_wr.ml" run_line.
