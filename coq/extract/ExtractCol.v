From CH Require Import model.GlueCol.
Require Extraction.
Require ExtrOcamlBasic.
Extraction Language OCaml.
Extraction "eval_col.ml" run_line.
