"""Shared driver for the column-level harness families (c01, c06, c07, c15, c16, c18): run a family
with one or both builds of the generated codecs, evaluate the same case lines with the extracted
column model (GlueCol), compare, account."""
import os
from lib import common as C


def run_family(res, fam, n, seed, builds=("default",), extra=(), glue="Col", gluemod="GlueCol", sample=True,
               keep=False):
    wd = C.workdir(res.pid)
    all_rows = {}
    for build in builds:
        tags = ("purego",) if build == "purego" else ()
        binp = C.build_harness(tags=tags)
        out = os.path.join(wd, "%s_%s_%d.tsv" % (fam, build, seed))
        pend = os.path.join(wd, "%s_%s_pending.txt" % (fam, build))
        rc, log, stats, dt = C.run_harness(binp, fam, seed, n, res.tier, out, extra=list(extra) + ["pending=" + pend])
        if rc != 0:
            # the implementation under test took the process down (fatal out-of-memory, stack overflow):
            # that is an observation about ch-go, not an infrastructure failure, when a case was pending
            case = open(pend).read().strip() if os.path.exists(pend) else ""
            if case:
                res.oracle_fail(case[:4000], "process aborted while decoding (rc=%s): %s" % (rc, log[-300:].replace("\n", " ")))
            else:
                raise C.Infra("harness %s (%s) failed:\n%s" % (fam, build, log[-2000:]))
        rows = C.read_transcript(out, partial_ok=(rc != 0)) if os.path.exists(out) else []
        # case lines beyond 600 KB (thorough tier: thousands of rows of wide or nested kinds) cost the list-based model
        # minutes each: they are run on the implementation and judged by the direct oracle only
        small = [i for i, r in enumerate(rows) if len(r[0]) <= 600000]
        part = C.run_eval(glue, [rows[i][0] for i in small])
        model = [r[1] for r in rows]
        for i, m in zip(small, part):
            model[i] = m
        if len(small) != len(rows):
            key = "%s.%s.lines_not_run_on_model" % (fam, build)
            res.distribution[key] = res.distribution.get(key, 0) + len(rows) - len(small)
        C.compare_rows(res, rows, model, "correspondence(%s,%s)" % (fam, build))
        res.account(rows)
        for k, v in stats.items():
            res.distribution["%s.%s.%s" % (fam, build, k)] = res.distribution.get("%s.%s.%s" % (fam, build, k), 0) + v
        if len(res.samples) < 6:
            res.samples += [{"case": r[0][:300], "implementation": r[1][:300], "model": m[:300], "oracle": r[2][:200]}
                            for r, m in list(zip(rows, model))[:2]]
        if sample:
            ok, k, slog = C.coq_sample(gluemod, C.sample_pairs(rows, model, seed, k=20), wd, "%s_%s" % (fam, build))
            res.extra["in_coq_sample"] = res.extra.get("in_coq_sample", 0) + k
            if not ok:
                res.tie_broken("extraction", "vm_compute inside Coq disagrees with the extracted evaluator:\n" + slog)
        all_rows[build] = rows
        if not keep and os.path.exists(out):
            os.remove(out)
    return all_rows


def run_direct(res, fam, n, seed, builds=("default",), extra=()):
    """A family judged by its direct oracle only (observations are digests, not model terms): both builds
    run the same seeded cases; returns the rows per build."""
    wd = C.workdir(res.pid)
    all_rows = {}
    for build in builds:
        tags = ("purego",) if build == "purego" else ()
        binp = C.build_harness(tags=tags)
        out = os.path.join(wd, "%s_%s_%d.tsv" % (fam, build, seed))
        rc, log, stats, dt = C.run_harness(binp, fam, seed, n, res.tier, out, extra=list(extra))
        if rc != 0:
            raise C.Infra("harness %s (%s) failed:\n%s" % (fam, build, log[-2000:]))
        rows = C.read_transcript(out)
        for c, g, o in rows:
            if o.startswith("FAIL"):
                res.oracle_fail("%s [%s build]" % (c, build), o[5:])
        res.account(rows)
        for k, v in stats.items():
            res.distribution["%s.%s.%s" % (fam, build, k)] = res.distribution.get("%s.%s.%s" % (fam, build, k), 0) + v
        all_rows[build] = rows
        os.remove(out)
    return all_rows


def compare_builds(res, rows_a, rows_b, what):
    """C15: the two builds must give the same observation on the same case (the case text differs only
    in the build symbol)."""
    n = 0
    for a, b in zip(rows_a, rows_b):
        ca = a[0].replace(" unsafe ", " B ", 1).replace(" safe ", " B ", 1)
        cb = b[0].replace(" unsafe ", " B ", 1).replace(" safe ", " B ", 1)
        if ca != cb:
            res.tie_broken("generator", "the two builds generated different cases from one seed (%s): %s | %s" % (what, ca[:200], cb[:200]))
            return n
        if a[1] != b[1]:
            res.oracle_fail(a[0][:3000], "builds differ (%s): default=%s purego=%s" % (what, a[1][:500], b[1][:500]))
        n += 1
    if len(rows_a) != len(rows_b):
        res.tie_broken("generator", "the two builds produced %d and %d cases (%s)" % (len(rows_a), len(rows_b), what))
    return n


def replay_file(res, path, glue="Col"):
    """Re-run the model on the case lines of a replay file and show them next to what was recorded
    for the implementation; re-running the implementation on the same seed is `./check <id> --seed N`."""
    import re
    txt = open(path).read()
    print(txt[:6000])
    cases = [m.group(1).strip() for m in re.finditer(r"^\s*case:\s*(.+)$", txt, re.M)]
    cases = [c for c in cases if c and not c.startswith("lcdict")]
    if not cases:
        return 0
    out = C.run_eval(glue, cases[:50])
    print("---- model on the replayed cases ----")
    for c, o in zip(cases, out):
        print("case:  %s\nmodel: %s" % (c[:400], o[:400]))
    return 0
