"""Shared machinery of ./check: build steps, transcript comparison, verdicts, evidence.

Every check does, in this order,
  1. translator: /repo source -> coq/gen/*.v ; incremental `make` ; `coqc props/<id>.v`
  2. harness (Go, built against /repo's working tree) -> transcript
  3. extracted model evaluator on the same cases; a sample re-evaluated inside Coq by vm_compute
  4. comparison: implementation vs model (correspondence), implementation vs property (direct oracle)
  5. verdict + evidence/<id>.json
See DESIGN.md sections 1, 2 and 9.
"""
import fcntl
import hashlib
import json
import os
import random
import re
import subprocess
import sys
import time

VERIF = os.path.dirname(os.path.dirname(os.path.abspath(__file__)))
REPO = os.environ.get("VERIF_REPO", "/repo")
COQ = os.path.join(VERIF, "coq")
WORK = os.path.join(VERIF, "work")
GOENV = dict(os.environ, GOFLAGS="-mod=mod", GOPROXY="off", GOSUMDB="off", GOTOOLCHAIN="local",
             CGO_ENABLED=os.environ.get("CGO_ENABLED", "1"))

TRUSTED_BASE = [
    "Coq 8.16.1 kernel incl. vm_compute (no native_compute)",
    "translator/ (Go, go/parser+go/ast): /repo source -> coq/gen/*.v",
    "extraction with ExtrOcamlBasic only (bool, option, unit, list, prod, sumbool, sumor, andb, orb); N/Z/positive/nat stay inductive",
    "coq/extract/driver.ml, OCaml 4.13.1",
    "harness/ (Go) and the comparator in lib/common.py",
    "Go toolchain, OS",
]


class Infra(Exception):
    """A failure of the machinery itself: reported as such, never as a VIOLATION."""


def _limit(mem_bytes):
    def f():
        import resource
        resource.setrlimit(resource.RLIMIT_AS, (mem_bytes, mem_bytes))
    return f


def sh(cmd, cwd=None, env=None, timeout=1200, check=False, input=None, mem=None):
    t0 = time.time()
    try:
        p = subprocess.run(cmd, cwd=cwd, env=env, shell=isinstance(cmd, str), stdout=subprocess.PIPE,
                           stderr=subprocess.STDOUT, timeout=timeout, input=input,
                           preexec_fn=_limit(mem) if mem else None)
        out = p.stdout.decode("utf-8", "replace")
        rc = p.returncode
    except subprocess.TimeoutExpired as e:
        out = (e.stdout or b"").decode("utf-8", "replace") + "\n[timeout after %ds]" % timeout
        rc = 124
    if check and rc != 0:
        raise Infra("command failed (%s): %s\n%s" % (rc, cmd, out[-4000:]))
    return rc, out, time.time() - t0


class Lock:
    def __enter__(self):
        self.f = open(os.path.join(VERIF, ".build.lock"), "w")
        fcntl.flock(self.f, fcntl.LOCK_EX)
        return self

    def __exit__(self, *a):
        fcntl.flock(self.f, fcntl.LOCK_UN)
        self.f.close()


# ---------------------------------------------------------------- build steps
def build_translator():
    d = os.path.join(VERIF, "translator")
    binp = os.path.join(d, "bin", "translator")
    newest = max(os.path.getmtime(os.path.join(d, f)) for f in os.listdir(d) if f.endswith(".go"))
    if not os.path.exists(binp) or os.path.getmtime(binp) < newest:
        os.makedirs(os.path.dirname(binp), exist_ok=True)
        sh(["go", "build", "-o", binp, "."], cwd=d, env=GOENV, check=True)
    return binp


def run_translator():
    """Regenerate coq/gen from the current /repo.  Returns (ok, log)."""
    binp = build_translator()
    rc, out, _ = sh([binp, "-repo", REPO, "-out", os.path.join(COQ, "gen")], timeout=120)
    return rc == 0, out


def coq_make(targets=None, timeout=3000):
    if not os.path.exists(os.path.join(COQ, "Makefile")):
        sh(["./mkproject.sh"], cwd=COQ, check=True)
    cmd = ["make", "-j16"] + (["-k"] if targets is None else []) + (targets or [])
    rc, out, dt = sh(cmd, cwd=COQ, timeout=timeout)
    return rc == 0, out


THEOREM_RE = re.compile(r"^\s*(Theorem|Lemma|Example|Corollary)\s+([A-Za-z0-9_']+)", re.M)


def coq_props(pid):
    """Always re-run coqc on props/<pid>.v and parse its Print Assumptions output."""
    path = os.path.join(COQ, "props", pid + ".v")
    src = open(path).read()
    names = [m.group(2) for m in THEOREM_RE.finditer(src)]
    rc, out, dt = sh(["coqc", "-Q", ".", "CH", "-w", "-notation-overridden,-ambiguous-paths", "props/%s.v" % pid],
                     cwd=COQ, timeout=1800)
    closed = out.count("Closed under the global context")
    axioms = []
    for m in re.finditer(r"Axioms:\n((?:.+\n?)+?)(?=\n\S|\Z)", out):
        for line in m.group(1).splitlines():
            mm = re.match(r"^([A-Za-z0-9_.']+)\s*:", line)
            if mm:
                axioms.append(mm.group(1))
    n_print = len(re.findall(r"^\s*Print Assumptions", src, re.M))
    n_axblocks = out.count("Axioms:")
    return {
        "ok": rc == 0,
        "theorems": names,
        "obligations": len(names),
        # statements checked by the kernel before the first failure
        "discharged": len(names) if rc == 0 else min(len(names), closed + n_axblocks),
        "print_assumptions": n_print,
        "closed": closed,
        "axioms": sorted(set(axioms)),
        "log": out[-3000:],
        "wall_s": dt,
    }


FORBIDDEN = re.compile(r"\b(Admitted|admit|Axiom|Parameter|Conjecture|Abort All|Unset Guard Checking|bypass_check|"
                       r"Unset Positivity Checking|Unset Universe Checking|Admit Obligations|native_compute)\b")


def coq_hygiene():
    bad = []
    for sub in ("model", "proofs", "props", "gen", "extract"):
        d = os.path.join(COQ, sub)
        if not os.path.isdir(d):
            continue
        for fn in sorted(os.listdir(d)):
            if fn.endswith(".v"):
                for i, line in enumerate(open(os.path.join(d, fn), errors="replace"), 1):
                    code = re.sub(r"\(\*.*?\*\)", "", line)
                    if FORBIDDEN.search(code):
                        bad.append("%s/%s:%d: %s" % (sub, fn, i, line.strip()))
    return bad


def build_harness(tags=(), race=False, name=None):
    d = os.path.join(VERIF, "harness")
    sh(["cp", os.path.join(REPO, "go.sum"), os.path.join(d, "go.sum")], check=True)
    name = name or ("vharness" + ("_" + "_".join(tags) if tags else "") + ("_race" if race else ""))
    binp = os.path.join(d, "bin", name)
    os.makedirs(os.path.dirname(binp), exist_ok=True)
    cmd = ["go", "build"]
    if tags:
        cmd += ["-tags", ",".join(tags)]
    if race:
        cmd += ["-race"]
    cmd += ["-o", binp, "."]
    rc, out, _ = sh(cmd, cwd=d, env=GOENV, timeout=1800)
    if rc != 0:
        # /repo may not compile after an edit: that is not our infrastructure
        raise Infra("harness build failed (does /repo still compile?):\n" + out[-3000:])
    return binp


def build_eval(fam):
    low = fam.lower()
    binp = os.path.join(COQ, "extract", "build", "eval_" + low)
    newest = 0
    for sub in ("model", "gen"):
        for fn in os.listdir(os.path.join(COQ, sub)):
            if fn.endswith(".v"):
                newest = max(newest, os.path.getmtime(os.path.join(COQ, sub, fn)))
    newest = max(newest, os.path.getmtime(os.path.join(COQ, "extract", "Extract%s.v" % fam)),
                 os.path.getmtime(os.path.join(COQ, "extract", "driver.ml")))
    if not os.path.exists(binp) or os.path.getmtime(binp) < newest:
        sh(["./extract/build.sh", fam], cwd=COQ, check=True, timeout=1800)
    return binp


def _run_eval_chunk(args):
    binp, lines, timeout = args
    data = ("\n".join(lines) + "\n").encode()
    def big_stack():
        # the extracted evaluator is not tail recursive everywhere: long case lines need a deep stack
        import resource
        try:
            resource.setrlimit(resource.RLIMIT_STACK, (resource.RLIM_INFINITY, resource.RLIM_INFINITY))
        except (ValueError, OSError):
            soft, hard = resource.getrlimit(resource.RLIMIT_STACK)
            resource.setrlimit(resource.RLIMIT_STACK, (hard, hard))
    p = subprocess.run([binp], input=data, stdout=subprocess.PIPE, stderr=subprocess.PIPE, timeout=timeout,
                       preexec_fn=big_stack)
    if p.returncode != 0:
        return None, p.stderr.decode()[-2000:]
    out = p.stdout.decode("latin-1").split("\n")
    if out and out[-1] == "":
        out.pop()
    return out, ""


def run_eval(fam, case_lines, timeout=1800, workers=12):
    """Run the extracted model evaluator on the case lines (in parallel chunks, order preserved)."""
    binp = build_eval(fam)
    if not case_lines:
        return []
    n = len(case_lines)
    k = max(1, min(workers, n // 50))
    size = (n + k - 1) // k
    chunks = [case_lines[i:i + size] for i in range(0, n, size)]
    from concurrent.futures import ThreadPoolExecutor
    with ThreadPoolExecutor(max_workers=len(chunks)) as ex:
        # thorough tiers hand tens of thousands of lines to one process: the limit grows with the chunk
        results = list(ex.map(_run_eval_chunk, [(binp, c, timeout + len(c)) for c in chunks]))
    out = []
    for r, err in results:
        if r is None:
            raise Infra("model evaluator %s failed: %s" % (fam, err))
        out += r
    if len(out) != n:
        raise Infra("model evaluator %s: %d outputs for %d cases" % (fam, len(out), n))
    return out


def coq_sample(glue_module, pairs, workdir, tag):
    """Re-evaluate (case, expected model output) pairs inside Coq with vm_compute.
    Guards the extraction: the OCaml evaluator and the kernel must agree."""
    pairs = [(c, o) for c, o in pairs if len(c) < 3000 and len(o) < 3000 and '"' not in c and '"' not in o]
    if not pairs:
        return True, 0, ""
    fn = os.path.join(workdir, "sample_%s.v" % tag)
    with open(fn, "w") as f:
        f.write("From CH Require Import model.Sx model.%s.\nOpen Scope string_scope.\n" % glue_module)
        f.write("Definition cases : list (string * string) := [\n")
        f.write(";\n".join('  ("%s", "%s")' % (c, o) for c, o in pairs))
        f.write("\n].\n")
        f.write("Definition mism := Eval vm_compute in\n  List.filter (fun io => negb (bytes_eqb (run_line (s2b (fst io))) (s2b (snd io)))) cases.\n")
        f.write("Print mism.\n")
    rc, out, _ = sh(["coqc", "-Q", COQ, "CH", "-w", "-notation-overridden,-ambiguous-paths", fn], cwd=workdir, timeout=900)
    ok = rc == 0 and re.search(r"mism\s*=\s*\[\s*\]", out) is not None
    return ok, len(pairs), out[-2000:]


# ---------------------------------------------------------------- transcripts
def read_transcript(path, partial_ok=False):
    """partial_ok: the harness process was taken down by the implementation under test (fatal out-of-memory):
    the last line may be cut short and is dropped"""
    rows = []
    with open(path, encoding="latin-1") as f:
        lines = f.read().split("\n")
    for i, line in enumerate(lines):
        if not line:
            continue
        parts = line.split("\t")
        if len(parts) != 3:
            if partial_ok and i == len(lines) - 1:
                break
            raise Infra("malformed transcript line: %r" % line[:200])
        rows.append(parts)
    return rows


def run_harness(binp, fam, seed, n, tier, out, extra=(), timeout=3000, env=None, mem=12 << 30):
    cmd = [binp, fam, "-seed", str(seed), "-n", str(n), "-tier", tier, "-out", out]
    for kv in extra:
        cmd += ["-arg", kv]
    # the implementation under test may try to allocate without bound: keep it in a box
    rc, log, dt = sh(cmd, timeout=timeout, env=env, mem=mem)
    stats = {}
    for m in re.finditer(r"^STAT (\S+) (\d+)$", log, re.M):
        stats[m.group(1)] = int(m.group(2))
    return rc, log, stats, dt


def canon_obs(s):
    """Projected observable: for failures only the class `err` / `crash` is compared."""
    t = s.split(" ", 1)[0]
    if t == "err":
        return "err"
    if t == "crash":
        return "crash"
    return s


# ---------------------------------------------------------------- known findings
def load_known():
    p = os.path.join(VERIF, "known_findings.json")
    if not os.path.exists(p):
        return []
    return json.load(open(p))["findings"]


def match_known(pid, text):
    """A violation is a known finding iff a listed entry of status `known` for this
    property has every one of its `match` substrings in the violation text."""
    for k in load_known():
        if k["property"] == pid and k["status"] == "known":
            if all(m in text for m in k["match"]):
                return k
    return None


# ---------------------------------------------------------------- result
class Result:
    def __init__(self, pid, tier, seed):
        self.pid, self.tier, self.seed = pid, tier, seed
        self.t0 = time.time()
        self.proof = None
        self.tie_failures = []      # translator / proof / correspondence problems: (kind, description)
        self.oracle_failures = []   # direct property failures on the implementation: (case, detail)
        self.known_hits = {}
        self.evaluations = 0
        self.nontrivial = set()
        self.samples = []
        self.distribution = {}
        self.traces_validated = 0
        self.notes = []
        self.extra = {}
        self.assumptions = []
        self.level = "proof"

    def tie_broken(self, kind, desc):
        self.tie_failures.append((kind, desc))

    def oracle_fail(self, case, detail):
        text = detail + " :: " + case
        k = match_known(self.pid, text)
        if k is not None:
            self.known_hits.setdefault(k["id"], k)
        else:
            self.oracle_failures.append((case, detail))

    def account(self, rows):
        """rows: list of (case, go_obs, oracle)"""
        self.evaluations += len(rows)
        for c, g, o in rows:
            cls = canon_obs(g)
            if cls in ("err", "crash", "-"):
                self.nontrivial.add((c.split(" ", 2)[:2].__repr__(), cls))
            else:
                self.nontrivial.add(hashlib.sha1(c.encode("latin-1")).hexdigest())


def compare_rows(res, rows, model_out, what="correspondence", loose_err=True):
    """Implementation vs model on projected observables; implementation vs property."""
    mism = 0
    for (c, g, o), m in zip(rows, model_out):
        if o.startswith("FAIL"):
            res.oracle_fail(c, o[5:])
        if g == "-":
            continue
        gc, mc = (canon_obs(g), canon_obs(m)) if loose_err else (g, m)
        if gc != mc:
            mism += 1
            if mism <= 20:
                res.tie_broken(what, "case: %s\n  implementation: %s\n  model:          %s" % (c[:2000], g[:1000], m[:1000]))
        else:
            res.traces_validated += 1
    return mism


def finish(res):
    """Print the verdict, write evidence, return the exit code."""
    pid = res.pid
    os.makedirs(os.path.join(VERIF, "evidence"), exist_ok=True)
    os.makedirs(os.path.join(VERIF, "replays"), exist_ok=True)
    rc = 0
    for k in res.known_hits.values():
        print("KNOWN-FINDING: property=%s %s" % (pid, k["what"]))
    stamp = "%s_%s_%d" % (pid, res.tier, res.seed)
    if res.oracle_failures:
        path = os.path.join(VERIF, "replays", stamp + "_input.txt")
        with open(path, "w") as f:
            f.write("kind: input\nproperty: %s\n" % pid)
            for c, d in res.oracle_failures[:50]:
                f.write("FAIL %s\n  case: %s\n" % (d, c))
            for kind, d in res.tie_failures[:20]:
                f.write("TIE %s\n  %s\n" % (kind, d))
        print("VIOLATION property=%s replay=%s" % (pid, path))
        rc = 1
    elif res.tie_failures:
        path = os.path.join(VERIF, "replays", stamp + "_tie.txt")
        with open(path, "w") as f:
            f.write("kind: theorem-or-correspondence\nproperty: %s\n" % pid)
            f.write("The following no longer check; the search of model and implementation found no failing input.\n")
            for kind, d in res.tie_failures[:40]:
                f.write("BROKEN %s\n  %s\n" % (kind, d))
        print("VIOLATION property=%s replay=%s no-failing-input-found" % (pid, path))
        rc = 1
    proof = res.proof or {"obligations": 0, "discharged": 0, "axioms": [], "theorems": []}
    cov = {
        "obligations": proof["obligations"],
        "discharged": proof["discharged"],
        "checker_cmd": "coqc -Q . CH props/%s.v (after translator + make; Print Assumptions parsed)" % pid,
        "trusted_base": TRUSTED_BASE + res.extra.get("trusted_base", []),
        "axioms": proof["axioms"],
        "theorems": proof["theorems"],
        "evaluations": res.evaluations,
        "distinct_nontrivial": len(res.nontrivial),
        "rule": res.extra.get("rule", "cases come from the seeded generators of harness/; a case is non-trivial when the "
                              "implementation produced a value for it (counted per distinct case) or a failure class "
                              "(counted once per case kind and class)"),
        "samples": res.samples[:8] or ["(no cases run)"],
        "traces_validated_against_impl": res.traces_validated,
        "input_distribution": res.distribution,
        "known_findings_reobserved": sorted(res.known_hits),
    }
    for k, v in res.extra.items():
        if k not in ("rule", "trusted_base"):
            cov[k] = v
    ev = {
        "property_id": pid, "tier": res.tier, "seed": res.seed, "level": res.level,
        "coverage": cov,
        "assumptions": res.assumptions,
        "wall_s": round(time.time() - res.t0, 2),
        "violations": len(res.oracle_failures) + (1 if (res.tie_failures and not res.oracle_failures) else 0),
        "notes": res.notes,
    }
    with open(os.path.join(VERIF, "evidence", pid + ".json"), "w") as f:
        json.dump(ev, f, indent=1, sort_keys=True)
    print("%s %s tier=%s seed=%d: obligations %d/%d, %d cases (%d validated against the model), %.1fs" % (
        "OK" if rc == 0 else "FAILED", pid, res.tier, res.seed, proof["discharged"], proof["obligations"],
        res.evaluations, res.traces_validated, time.time() - res.t0))
    return rc


def proof_step(res, need_translator=True):
    """Step 1 of every check. Fills res.proof; records broken ties."""
    with Lock():
        ok, log = run_translator()
        if not ok:
            res.tie_broken("translator", "the translator no longer recognises the source shape:\n" + log[-1500:])
        bad = coq_hygiene()
        if bad:
            raise Infra("forbidden constructs in the Coq development:\n" + "\n".join(bad))
        ok, log = coq_make()     # make -k: everything that still builds is built
        if not ok:
            # a file that no longer compiles concerns this property only if props/<pid>.v depends on it
            ok, log = coq_make(targets=["props/%s.vo" % res.pid])
            if not ok:
                res.tie_broken("coq-build", "the Coq development under props/%s.v no longer builds against the "
                               "regenerated tables:\n%s" % (res.pid, log[-2500:]))
            else:
                res.notes.append("a Coq file that props/%s.v does not depend on no longer builds" % res.pid)
        pr = coq_props(res.pid)
        res.proof = pr
        if not pr["ok"]:
            res.tie_broken("theorem", "props/%s.v no longer checks (%d of %d statements accepted):\n%s" % (
                res.pid, pr["discharged"], pr["obligations"], pr["log"][-2500:]))
        if pr["axioms"]:
            res.notes.append("axioms reported by Print Assumptions: " + ", ".join(pr["axioms"]))
        if res.tier == "thorough" and pr["ok"]:
            # independent re-check of the compiled property file and everything it depends on
            rc, out, dt = sh(["coqchk", "-silent", "-o", "-Q", ".", "CH", "CH.props." + res.pid], cwd=COQ, timeout=5400)
            m = re.search(r"\* Axioms:\s*(.*?)\n\s*\n", out, re.S)
            ax = m.group(1).strip() if m else "?"
            res.extra["coqchk"] = {"exit": rc, "axioms": ax, "wall_s": round(dt, 1)}
            if rc != 0:
                res.tie_broken("coqchk", "coqchk does not accept props/%s.vo:\n%s" % (res.pid, out[-2000:]))
            elif ax != "<none>":
                res.notes.append("coqchk axioms: " + ax)
    return res.proof


def workdir(pid):
    d = os.path.join(WORK, pid)
    os.makedirs(d, exist_ok=True)
    return d


def sample_pairs(rows, model_out, seed, k=50):
    idx = list(range(len(rows)))
    random.Random(seed).shuffle(idx)
    return [(rows[i][0], model_out[i]) for i in idx[:k * 3]][:k * 3]


def eval_families():
    """Families with an extraction file coq/extract/Extract<Fam>.v."""
    out = []
    for fn in sorted(os.listdir(os.path.join(COQ, "extract"))):
        m = re.match(r"Extract([A-Za-z0-9]+)\.v$", fn)
        if m:
            out.append(m.group(1))
    return out
