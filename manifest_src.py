"""Source tables for MANIFEST.json (run ./tools_manifest.py after editing)."""
HOOK_COMMITS = ["b9f17e3"]

COMMON_NOTE = ("Trusted: Coq 8.16.1 kernel incl. vm_compute; translator/ (syntactic Go->Coq tables); extraction with "
               "ExtrOcamlBasic only + driver.ml; Go harness and python comparator; Go toolchain. The model is hand-written "
               "Gallina mirroring the Go source, tied to it on every run by regenerated tables and differential runs. ")

CLAIMED = [
    {"id": "C17",
     "text": "Round-trip and field-presence theorems for every protocol message at every revision (induction over layouts, "
             "values and revisions; no bound), closed under the global context; the layouts' gate signatures are re-read from "
             "the Go source on each run (theorem gate_signatures_match_source) and the executable model is run against "
             "the implementation on generated messages (bytes exact, decoded record, bytes left).",
     "note": COMMON_NOTE + "Assumes trace.ParseTraceState inverts TraceState.String; only InterfaceTCP client infos decode.",
     "technique": "Coq proof (round-trip by induction over gated field layouts) + translator-checked gate signatures + differential correspondence"},
]


CLAIMED += [
    {"id": "C05",
     "text": "Compressed frames: for every payload list and method/level, frames written by compress.Writer are read back by compress.Reader as exactly the payloads under any read sizes; any alteration confined to checksum or body is rejected (CorruptedDataErr with both checksums when lengths are intact) modulo a stated CityHash128 collision; over-limit size fields are rejected before allocation; over every stream and every read history every byte handed out belongs to a verified frame, once, in order (12 theorems, closed under the global context).",
     "note": COMMON_NOTE + "Codecs and CityHash128 are Section variables (codec round trip is the one hypothesis, used by the round-trip theorems only); when the model is run they are oracle tables recorded from the real libraries. Three reader defects repaired in /repo. Client path and multi-MiB payloads: direct oracle only.",
     "technique": "Coq proof (invariant + measure induction over the Reader state machine, declarative verified_frame/frames_in spec) + extracted-model correspondence with hash/codec oracle tables + provenance oracle in Go"},
    {"id": "C14",
     "text": "For every sequence of ChainBuffer callbacks (append, rewrite or shrink of the uncut tail), zero-copy ChainWrite, caller overwrites and flushes to accepting / failing / short-writing sinks, under every reallocation behaviour of append, each Flush delivers a prefix (complete iff the sink accepts) of the concatenation in call order of everything appended or chained since the previous flush; after a flush, successful or failed, the writer is empty and nothing earlier is written again; cut slices are capacity-limited and never overwritten; for every type tree and contents the pieces WriteColumn / WriteBlock issue carry exactly the bytes of EncodeColumn / EncodeBlock (11 theorems, closed), re-checked on real columns and blocks by a direct oracle.",
     "note": COMMON_NOTE + "Writer half: theorems over an explicit heap/slice model of proto/writer.go plus net.Buffers.WriteTo for a non-vectored writer. Column/block path equivalence: theorems write_column_eq / write_block_eq over model/Send.v (pieces = bytes) composed with the operation-level flush theorem, plus a direct oracle on ~80 real column kinds x 10 row counts and 600 blocks per quick run. Assumes the ChainBuffer contract and no aliasing of chained slices with the staging buffer.",
     "technique": "Coq proof (refinement of a memory-free concatenation spec by a heap-and-slices model, invariants W1-W3, all histories / reallocation oracles / sinks) + extracted-model correspondence + direct oracle"},
    {"id": "C19",
     "text": "ColAuto.Infer never panics on any byte string; whenever it creates a column, that column's Type() does not conflict with the requested type (either order) and a second block of the same type is accepted; ColumnType.Conflicts is total, reflexive, symmetric, honours enum/integer, decimal-by-precision, DecimalN(S), comma-spacing, time-zone and element-wise Array/Nullable/LowCardinality equivalences and reports other different bases as conflicting (22 theorems, closed).",
     "note": COMMON_NOTE + "time.LoadLocation and strings.ToLower are universally quantified oracles; the inference tables (inferGenerated, method sets, ColumnType constants, switch arms) are regenerated from the source each run and the table-dependent proof steps recomputed; decoding of data by the inferred column is a direct oracle here (proved at model level under C01); nesting depth 10000 is observed, not proved. Two defects repaired in /repo.",
     "technique": "Coq proof over a statement-level Gallina mirror (fuelled recursion with proved fuel sufficiency, slice bounds as Crash) + regenerated tables + differential correspondence on generated/malformed/exhaustive-short type strings and all ordered Conflicts pairs"},
    {"id": "C20",
     "text": "Scalar conversions (Date, Date32, DateTime, DateTime64 at precision 0..9, 128/256-bit integers, IPv4/IPv6, Interval.Add) are exact over each type's documented range: theorems over an executable model mirroring the Go helpers and temporal columns, incl. a days<->civil calendar bijection proved for all days; tied to /repo every run by differential execution of the real helpers against the extracted model plus a direct round-trip oracle.",
     "note": COMMON_NOTE + "Fixed-offset zones only; Go's time package is modelled (validated against time.Date on every Date32 day each run); Interval seconds/minutes/hours within time.Duration. Defects 14/15 fixed in /repo; Interval quarter = 4 months is a known finding (the pinned test suite asserts it).",
     "technique": "Coq proof (lia with Euclidean division, finite-domain reflection for the in-era calendar) + extracted-model differential testing + direct oracle in Go"},
]


CLAIMED += [
    {"id": "C01",
     "text": "Column and block codecs as a deep embedding (type tree / Go struct contents / row values): for every type tree (any nesting of Array, Nullable, LowCardinality, Map, Tuple, Named over every element kind), every well-formed contents within the row cap, either build on either side and any trailing bytes, DecodeColumn(EncodeColumn d) = d with exact consumption (hence equal Rows() and Row(i)); state prefixes round-trip; whole blocks round-trip into typed targets at every revision (block info iff the revision has it, names filled in). Proved by induction over the type tree; closed under the global context.",
     "note": COMMON_NOTE + "Little-endian host for the unsafe codecs. LowCardinality over Float / Nullable / Date elements is outside the modelled nestings (Go map-key equality vs bit equality; lossy element conversion). Block level assumes Conflicts reflexive (proved in C19) and targets adopting their own type string; inference-path blocks are exercised by the C18 family. Buffer independence holds by construction in the model and is tied by encoding into non-empty buffers in both builds.",
     "technique": "Coq proof (structural induction over the column type tree, dictionary/offset invariants) + extracted-model correspondence on real columns dumped by reflection (both builds) + direct round-trip oracle"},
    {"id": "C06",
     "text": "For every byte string, every type tree (no empty tuple, element widths within the widest codec) and every declared row count within the cap, DecodeColumn / DecodeState+DecodeColumn never panics and never requests memory beyond rows-cap x element width while the bytes are absent (no Crash in the model); counts beyond the cap are refused before allocation; whatever is accepted is consistent: Rows() equals the block's row count and every Row(i) is readable; message decoders never crash; data-dependent loops never run out of fuel.",
     "note": COMMON_NOTE + "partial: resident memory and stack depth are runtime facts, observed under an address-space limit (a dying harness process is reported with the pending input). Default-build Bool bytes other than 0/1 are excluded from the consistency theorem (they are kept as they are). Defects 4, 5, 19 were repaired in /repo.",
     "technique": "Coq proof (no-crash + allocation-bound combinators over the parser monad, induction over the type tree) + field-targeted mutation correspondence in both builds under a memory limit"},
    {"id": "C07",
     "text": "A decoder that never looks past what it consumes and consumes an encoding exactly rejects every proper prefix of it (proved once); every column decoder (any type tree), every message layout at every revision, Query, BlockInfo and the block header are such decoders, so every cut position is rejected; every proper prefix of a compressed frame (any method) fails the first read.",
     "note": COMMON_NOTE + "Compressed half uses CompressProofs (hash/codec as Section variables). Whole-block cuts follow from the column, header and message theorems; the harness cuts column encodings and messages at every position (stride for long ones in the quick tier), frames are cut by the C05 family.",
     "technique": "Coq proof (monotonicity of parsers + exact consumption => prefix rejection) + exhaustive cut-position correspondence"},
    {"id": "C08",
     "text": "Decoding is independent of transport segmentation: for every chunking, short-read oracle and bufio state, io.ReadFull/UVarInt/StrRaw and every reader program (compression on or off) through bufio+conn equal the same on the concatenated bytes (value, error, consumed); the receive loop with read deadlines depends only on bytes and gap positions; k timeouts before a packet are neutral.",
     "note": COMMON_NOTE + "Hand-written model of net.Conn/bufio/io.ReadFull/compress.Reader/proto.Reader/packet/receive loop; decoders covered as reader programs: realizers proved for all primitives, every message layout and every column decoder (DecodeState+DecodeColumn of any type tree, theorem column_decode_chunk_independent); block-level loops via the generic theorem. partial: the whole-loop gap theorem is proved for one boundary with any continuation, not for gaps before every packet at once; real deadlines are observed.",
     "technique": "Coq simulation proofs (layered reader <= gapped stream <= flat stream; free-monad reader programs) + differential segmentation oracle on the real client (all 2^(n-1) splits of short streams, two-piece at every offset, random, byte-by-byte, real deadlines)"},
    {"id": "C11",
     "text": "For every history of Acquire / Release (repeated) / Do (ok, exception, cut, cancelled) / Ping / Pool.Do / Pool.Ping / health-check steps / time / goroutine completions / Close, with any number of handles: puddle never panics; a resource has at most one holder; total <= MaxConns; a connection released closed or past its lifetime is destroyed and never held or idle again; a repeated Release changes nothing; a health check destroys exactly the expired idle connections; after Close, release of all handles and completion of puddle's goroutines every connection is closed.",
     "note": COMMON_NOTE + "partial: puddle v2.2.2 is modelled as atomic pool operations (its internal concurrency is trusted; MinConns = 0; ch.Client's outcome is the environment's choice). chpool.Client.Release was repaired in /repo (0c2e9e5).",
     "technique": "Coq proof (invariant preserved by every operation, induction over histories, absorbing-status relation) + step-by-step correspondence of the real chpool.Pool over an in-memory server (exhaustive short histories, random, timed) + concurrent runs under -race"},
    {"id": "C13",
     "text": "Handshake: for every client/server revision, credentials and segmentation, a hello arriving before the handshake timeout yields a client at min(client, server) with ServerInfo as sent and the addendum sent iff the revision has it; every later query/progress is encoded/decoded at that revision; exception, other packet, garbage, truncated hello, cut or silence give an error (carrying the exception), never a client, and Dial closes its connection (22 theorems, closed).",
     "note": COMMON_NOTE + "partial: abstract clock; real-time behaviour (arrival vs deadline, the Close race at the deadline instant in Connect) observed with >= 100 ms margins. Fixes cde2962 (Dial closes) and 4b29431 (hello bounded by HandshakeTimeout) are mirrored.",
     "technique": "Coq proof over an executable handshake model (round-trip / prefix-rejection reuse, constant obligation FeatureQuotaKey <= FeatureAddendum) + correspondence of ch.Connect/ch.Dial + Ping/Do over a scripted net.Conn"},
    {"id": "C15",
     "text": "Both builds of the codecs produce the same bytes for every type tree and contents, decode what either wrote to the same column, and each decodes the other's output to the original (theorems over the two model variants); the generated codec table re-read from the source is consistent (sizes, complementary build constraints); the same seeded cases run by harness binaries compiled without and with -tags purego give identical observations.",
     "note": COMMON_NOTE + "The unsafe variants are modelled for a little-endian host (host_repr), which is what their build constraint selects. Bool bytes other than 0/1 are outside the property (divergence lemma proved). Defect 1 (purego UUID) repaired in /repo.",
     "technique": "Coq proof (variant equivalence by induction over the type tree + table obligations by computation) + two-build differential run incl. exhaustive narrow element types and fresh/reset targets"},
    {"id": "C16",
     "text": "For every column type tree, every usable start state (whatever stale dictionary, keys or raw codes it holds) and every finite history over Append, AppendArr, Reset, Prepare, EncodeColumn, WriteColumn+Flush, EncodeRawBlock, Infer and Reset+Decode of any in-memory input, after every step the accessors report exactly the plain list of values, every encoding decodes in either build to exactly the column encoded, re-encoding without change re-sends the same bytes, and Reset+Decode leaves what a fresh column gives (11 theorems, closed).",
     "note": COMMON_NOTE + "Reset is the empty column; WriteColumn is modelled as EncodeColumn's bytes (C14) and re-checked on real columns; after a failed decode or Prepare nothing is claimed until the next Reset; Infer modelled for same-layout parameter changes. Defects repaired in /repo: dd430ea (LowCardinality.Prepare), 72b3f8b (DateTime64 zone), dd6eb72 (Enum definitions).",
     "technique": "Coq proof (append/prepare/decode invariants by induction over type trees, one-step refinement of a list-of-values spec, induction over histories) + per-step correspondence on real column objects (exhaustive short + random long histories, both builds)"},
]


CLAIMED += [
    {"id": "C02",
     "text": "Client.Do's sender on the vectored writer equals a pure packet concatenation, and the reference server-side parser (Query, typed blocks, one verified frame per block, exact consumption) reads every client stream as exactly [Query; external data?; empty block; (input blocks; empty block)?] for all query records, revisions >= 54429 and the five compression modes; WriteColumn/WriteBlock carry EncodeColumn/EncodeBlock's bytes for every type tree.",
     "note": COMMON_NOTE + "Premises: codec round trip, the 128 MiB frame limits, well-formed columns, identity inference step, an accepting connection; below revision 54429 (no server-side decoder in the library) the tie is byte equality between model and implementation.",
     "technique": "Coq refinement (writer memory model to pure events) + round-trip composition (C17/C01/C05 lemmas) + differential run of the real Client.Do over a scripted connection parsed by the extracted model parser"},
    {"id": "C09",
     "text": "For every OnInput history (arbitrary overwrites of captured column memory, append / reset / overwrite, nil / EOF / wrapped EOF / error, initial rows zero or not) the wire is one Data packet per round holding the contents at the round's start, then exactly one terminator iff Do ends normally; nothing already sent depends on later mutations, with and without compression, zero-copy columns included.",
     "note": COMMON_NOTE + "Column memory is modelled as slices named at chain time; aliasing between columns and the staging buffer is not modelled; write segmentation belongs to C14/C08. One defect repaired in /repo (cc55812).",
     "technique": "Coq proof (induction over callback histories on the Writer.v memory model) + byte-exact correspondence of the real streamed INSERT with per-round snapshots"},
    {"id": "C18",
     "text": "Result blocks bind only to compatible targets: Results.DecodeResult / decodeAuto modelled with the state every target is left in; success characterised exactly (count, names equal or blank, Infer accepted, no type conflict, own bytes decoded); failures leave a bound prefix, one explained failing step and an untouched rest, never foreign data; names are sticky over any block sequence; inferable targets adopt only the server's parameters (16 theorems, closed).",
     "note": COMMON_NOTE + "LoadLocation and ToLower are universally quantified; column decoders from C01; the failing target after a half decode is unspecified (masked); Tuple targets with inferable elements and Nullable/LowCardinality of DateTime64 mirror the library's quirks; no general nesting-independence theorem for adoption. Three defects repaired in /repo (dd6eb72, 0308afb, 7e6c4f7).",
     "technique": "Coq proof (refinement of the shared block model, inductive specification of a successful bind, invariant over block sequences) + correspondence on ~11k generated schema/target pairs per run against real EncodeBlock/DecodeBlock in both builds"},
]


CLAIMED += [
    {"id": "C03",
     "text": "For every script of server packets (Data/Totals blocks of any schema and size incl. zero-row and empty blocks, Progress, Profile, TableColumns, Log, ProfileEvents, exception chains of any depth, EndOfStream), every revision, compression on/off, every subset and failure point of the 7 callbacks and every Result binding (typed, Auto, empty, nil): the receiver's callback trace equals the trace computed from the script alone, the bound columns hold exactly each block, Do returns nil iff EndOfStream is reached before any other terminating event, and a server exception comes back with its whole chain, every code matched by errors.Is and the top code by IsCode (6 theorems, closed).",
     "note": COMMON_NOTE + "Compressed blocks: theorem for one frame per block (as compress.Writer emits), multi-frame blocks by correspondence only. Block/target compatibility (Infer, Conflicts, ColAuto.Infer) and codec round trip are premises. Read timeouts, cancellation and the sender/watcher goroutines are outside this model (C04/C10, C08). Extremes packets are not handled by the client (outside the property's packet list).",
     "technique": "Coq proof (simulation of the receive loop against a script-level specification: per-packet lemma lifted by induction over the script) + extracted-model correspondence on the exact bytes sent to the real Client.Do over a scripted in-memory net.Conn + direct trace/return/columns oracle"},
]

_PENDING = "check not built yet in this tree (construction order in DESIGN.md section 11); will be claimed once its props/ file compiles"
NOT_APPLICABLE = [(i, _PENDING) for i in
                  ["C04", "C10", "C12"]]
