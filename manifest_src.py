"""Source tables for MANIFEST.json (run ./tools_manifest.py after editing)."""
HOOK_COMMITS = []

COMMON_NOTE = ("Trusted: Coq 8.16.1 kernel incl. vm_compute; translator/ (syntactic Go->Coq tables); extraction with "
               "ExtrOcamlBasic only + driver.ml; Go harness and python comparator; Go toolchain. The model is hand-written "
               "Gallina mirroring the Go source, tied to it on every run by regenerated tables and differential runs. ")

CLAIMED = [
    {"id": "C17",
     "text": "Round-trip and field-presence theorems for every protocol message at every revision (induction over layouts, "
             "values and revisions; no bound), closed under the global context; the layouts' gate signatures are re-read from "
             "the Go source on each run (theorem gate_signatures_match_source) and the executable model is run against "
             "the implementation on generated messages (bytes exact, decoded record, bytes left).",
     "note": COMMON_NOTE + "Assumes trace.ParseTraceState inverts TraceState.String; only InterfaceTCP client infos decode.",
     "technique": "Coq proof (round-trip by induction over gated field layouts) + translator-checked gate signatures + differential correspondence"},
]


CLAIMED += [
    {"id": "C05",
     "text": "Compressed frames: for every payload list and method/level, frames written by compress.Writer are read back by compress.Reader as exactly the payloads under any read sizes; any alteration confined to checksum or body is rejected (CorruptedDataErr with both checksums when lengths are intact) modulo a stated CityHash128 collision; over-limit size fields are rejected before allocation; over every stream and every read history every byte handed out belongs to a verified frame, once, in order (12 theorems, closed under the global context).",
     "note": COMMON_NOTE + "Codecs and CityHash128 are Section variables (codec round trip is the one hypothesis, used by the round-trip theorems only); when the model is run they are oracle tables recorded from the real libraries. Three reader defects repaired in /repo. Client path and multi-MiB payloads: direct oracle only.",
     "technique": "Coq proof (invariant + measure induction over the Reader state machine, declarative verified_frame/frames_in spec) + extracted-model correspondence with hash/codec oracle tables + provenance oracle in Go"},
    {"id": "C14",
     "text": "For every sequence of ChainBuffer callbacks (append, rewrite or shrink of the uncut tail), zero-copy ChainWrite, caller overwrites and flushes to accepting / failing / short-writing sinks, under every reallocation behaviour of append, each Flush delivers a prefix (complete iff the sink accepts) of the concatenation in call order of everything appended or chained since the previous flush; after a flush, successful or failed, the writer is empty and nothing earlier is written again; cut slices are capacity-limited and never overwritten (9 theorems, closed). Columns and blocks written through WriteColumn/WriteBlock give the same bytes as EncodeColumn/EncodeBlock (direct oracle on the implementation).",
     "note": COMMON_NOTE + "Writer half: theorems over an explicit heap/slice model of proto/writer.go plus net.Buffers.WriteTo for a non-vectored writer. Column/block path equivalence: direct oracle on ~80 real column kinds x 10 row counts and 600 blocks per quick run (operation-level theorem chained_encoding_eq_buffer_encoding_partial only). Assumes the ChainBuffer contract and no aliasing of chained slices with the staging buffer.",
     "technique": "Coq proof (refinement of a memory-free concatenation spec by a heap-and-slices model, invariants W1-W3, all histories / reallocation oracles / sinks) + extracted-model correspondence + direct oracle"},
    {"id": "C19",
     "text": "ColAuto.Infer never panics on any byte string; whenever it creates a column, that column's Type() does not conflict with the requested type (either order) and a second block of the same type is accepted; ColumnType.Conflicts is total, reflexive, symmetric, honours enum/integer, decimal-by-precision, DecimalN(S), comma-spacing, time-zone and element-wise Array/Nullable/LowCardinality equivalences and reports other different bases as conflicting (22 theorems, closed).",
     "note": COMMON_NOTE + "time.LoadLocation and strings.ToLower are universally quantified oracles; the inference tables (inferGenerated, method sets, ColumnType constants, switch arms) are regenerated from the source each run and the table-dependent proof steps recomputed; decoding of data by the inferred column is a direct oracle here (proved at model level under C01); nesting depth 10000 is observed, not proved. Two defects repaired in /repo.",
     "technique": "Coq proof over a statement-level Gallina mirror (fuelled recursion with proved fuel sufficiency, slice bounds as Crash) + regenerated tables + differential correspondence on generated/malformed/exhaustive-short type strings and all ordered Conflicts pairs"},
    {"id": "C20",
     "text": "Scalar conversions (Date, Date32, DateTime, DateTime64 at precision 0..9, 128/256-bit integers, IPv4/IPv6, Interval.Add) are exact over each type's documented range: theorems over an executable model mirroring the Go helpers and temporal columns, incl. a days<->civil calendar bijection proved for all days; tied to /repo every run by differential execution of the real helpers against the extracted model plus a direct round-trip oracle.",
     "note": COMMON_NOTE + "Fixed-offset zones only; Go's time package is modelled (validated against time.Date on every Date32 day each run); Interval seconds/minutes/hours within time.Duration. Defects 14/15 fixed in /repo; Interval quarter = 4 months is a known finding (the pinned test suite asserts it).",
     "technique": "Coq proof (lia with Euclidean division, finite-domain reflection for the in-era calendar) + extracted-model differential testing + direct oracle in Go"},
]

_PENDING = "check not built yet in this tree (construction order in DESIGN.md section 11); will be claimed once its props/ file compiles"
NOT_APPLICABLE = [(i, _PENDING) for i in
                  ["C01", "C02", "C03", "C04", "C06", "C07", "C08", "C09", "C10", "C11", "C12", "C13",
                   "C15", "C16", "C18"]]
