"""Source tables for MANIFEST.json (run ./tools_manifest.py after editing)."""
HOOK_COMMITS = []

COMMON_NOTE = ("Trusted: Coq 8.16.1 kernel incl. vm_compute; translator/ (syntactic Go->Coq tables); extraction with "
               "ExtrOcamlBasic only + driver.ml; Go harness and python comparator; Go toolchain. The model is hand-written "
               "Gallina mirroring the Go source, tied to it on every run by regenerated tables and differential runs. ")

CLAIMED = [
    {"id": "C17",
     "text": "Round-trip and field-presence theorems for every protocol message at every revision (induction over layouts, "
             "values and revisions; no bound), closed under the global context; the layouts' gate signatures are re-read from "
             "the Go source on each run (theorem gate_signatures_match_source) and the executable model is run against "
             "the implementation on generated messages (bytes exact, decoded record, bytes left).",
     "note": COMMON_NOTE + "Assumes trace.ParseTraceState inverts TraceState.String; only InterfaceTCP client infos decode.",
     "technique": "Coq proof (round-trip by induction over gated field layouts) + translator-checked gate signatures + differential correspondence"},
]

_PENDING = "check not built yet in this tree (construction order in DESIGN.md section 11); will be claimed once its props/ file compiles"
NOT_APPLICABLE = [(i, _PENDING) for i in
                  ["C01", "C02", "C03", "C04", "C05", "C06", "C07", "C08", "C09", "C10", "C11", "C12", "C13", "C14",
                   "C15", "C16", "C18", "C19", "C20"]]
