package main

// C12 translator, third part: goroutine structure of Do / handshake / the pool, call graph, output.

import (
	"bytes"
	"fmt"
	"go/ast"
	"path/filepath"
	"sort"
	"strings"
)

func c12Mentions(n ast.Node, name string) bool {
	found := false
	ast.Inspect(n, func(x ast.Node) bool {
		if s, ok := x.(*ast.SelectorExpr); ok && s.Sel.Name == name {
			found = true
		}
		return !found
	})
	return found
}

// special: `g.Go(func() error {...})` in Do and `wg.Go(...)` in handshake start the goroutines.
func (w *c12W) special(c *ast.CallExpr, sc *c12Scope) bool {
	sel, ok := c.Fun.(*ast.SelectorExpr)
	if !ok || sel.Sel.Name != "Go" {
		return false
	}
	var roles, marks []string
	switch {
	case w.isCh("Client.Do") && w.inDo:
		roles = []string{"Sender", "Receiver", "Watcher"}
		marks = []string{"sendQuery", "packet", "cancelQuery"}
	case w.isCh("Client.handshake") && w.hsTop:
		roles = []string{"HsWatchdog", "HsWorker"}
		marks = []string{"Close", "packetTimeout"}
	default:
		die("c12: %s:%d: %s in %s: goroutine structure not recognised", w.file, w.line(c), exprText(c.Fun), w.fn)
	}
	if len(c.Args) != 1 {
		die("c12: %s:%d: Go with %d arguments", w.file, w.line(c), len(c.Args))
	}
	fl, ok := c.Args[0].(*ast.FuncLit)
	if !ok {
		die("c12: %s:%d: Go is not given a closure: shape not recognised", w.file, w.line(c))
	}
	k := *w.goCount
	if k >= len(roles) {
		die("c12: %s:%d: more goroutines in %s than the model knows (%d)", w.file, w.line(c), w.fn, len(roles))
	}
	// the goroutines are recognised by what they call, not by their order
	which := -1
	for i, m := range marks {
		if c12Mentions(fl, m) {
			if which >= 0 {
				die("c12: %s:%d: a goroutine of %s calls both %s and %s: shape not recognised", w.file, w.line(c), w.fn, marks[which], m)
			}
			which = i
		}
	}
	if which < 0 {
		die("c12: %s:%d: a goroutine of %s calls none of %v: shape not recognised", w.file, w.line(c), w.fn, marks)
	}
	if w.g.seen["go|"+w.fn+"|"+roles[which]] {
		die("c12: %s:%d: two goroutines of %s look like the %s: shape not recognised", w.file, w.line(c), w.fn, roles[which])
	}
	w.g.seen["go|"+w.fn+"|"+roles[which]] = true
	w2 := *w
	w2.role, w2.inDo, w2.hsTop = roles[which], false, false
	w2.funcLit(fl, sc)
	*w.goCount = k + 1
	if k+1 == len(roles) {
		if w.isCh("Client.Do") {
			w.role = "DoAfter"
		} else {
			w.role = "HsAfter"
		}
	}
	return true
}

func (w *c12W) visit(key string, fd *ast.FuncDecl) {
	id := key + "|" + w.role + "|" + strings.Join(w.held, ",")
	hs := w.g.p.name == "ch" && w.role == "HsBefore" && (key == "Client.handshake" || key == "Connect")
	if w.g.seen[id] {
		if hs {
			w.role = "HsAfter"
		}
		return
	}
	w.g.seen[id] = true
	end := w.g.walkFunc(key, fd, w.role, w.held)
	if hs {
		if end != "HsAfter" {
			die("c12: %s does not end in the after-handshake role: shape not recognised", key)
		}
		w.role = "HsAfter"
	}
}

func (g *c12Gen) walkFunc(key string, fd *ast.FuncDecl, role string, held []string) string {
	if fd.Body == nil {
		return role
	}
	n := 0
	w := &c12W{g: g, role: role, fn: key, file: g.p.fileOf[fd], held: append([]string(nil), held...), goCount: &n}
	sc := (&c12Scope{}).push()
	if key == "Client.Do" && g.p.name == "ch" {
		w.inDo, w.doVars = true, true
	}
	if key == "Client.handshake" && g.p.name == "ch" {
		w.hsTop = true
	}
	if fd.Recv != nil {
		for _, f := range fd.Recv.List {
			t := c12Norm(g.p.name, f.Type)
			for _, id := range f.Names {
				sc.vars[id.Name] = c12Var{typ: t}
			}
		}
	}
	w.params(fd.Type, sc, w.inDo)
	inherited := len(held)
	w.block(fd.Body.List, sc)
	if len(w.held) > inherited && !w.defers {
		die("c12: %s returns holding %v: shape not recognised", key, w.held)
	}
	if g.p.name != "ch" {
		return w.role
	}
	switch key {
	case "Client.Do":
		if n != 3 || w.role != "DoAfter" {
			die("c12: Client.Do starts %d goroutines, the model knows 3: shape not recognised", n)
		}
	case "Client.handshake":
		if n != 2 || w.role != "HsAfter" {
			die("c12: Client.handshake starts %d goroutines, the model knows 2: shape not recognised", n)
		}
	}
	return w.role
}

func (g *c12Gen) entry(key, role string) {
	fd, ok := g.p.funcs[key]
	if !ok {
		die("c12: entry point %s.%s not found: shape not recognised", g.p.name, key)
	}
	id := key + "|" + role + "|"
	if g.seen[id] {
		return
	}
	g.seen[id] = true
	g.walkFunc(key, fd, role, nil)
}

func c12Emit(b *bytes.Buffer, gens []*c12Gen) {
	var rows []c12Row
	for _, g := range gens {
		for r := range g.rows {
			rows = append(rows, r)
		}
	}
	sort.Slice(rows, func(i, j int) bool {
		a, c := rows[i], rows[j]
		ka := fmt.Sprintf("%s|%s|%s|%s|%06d|%s|%s|%s", a.strct, a.field, a.role, a.file, a.line, a.kind, a.prot, a.fn)
		kc := fmt.Sprintf("%s|%s|%s|%s|%06d|%s|%s|%s", c.strct, c.field, c.role, c.file, c.line, c.kind, c.prot, c.fn)
		return ka < kc
	})
	b.WriteString("Record access := mk_access { a_role : string; a_struct : string; a_field : string; a_kind : string;\n  a_prot : string; a_fn : string; a_file : string; a_line : N }.\n\n")
	b.WriteString("(* role, struct, field, r|w, plain|atomic|lock:<struct>.<mutex>, function, file, line *)\n")
	b.WriteString("Definition access_table : list access := [\n")
	for i, r := range rows {
		sep := ";"
		if i == len(rows)-1 {
			sep = ""
		}
		fmt.Fprintf(b, "  mk_access %s %s %s %s %s %s %s %d%s\n", coqStr(r.role), coqStr(r.strct), coqStr(r.field), coqStr(r.kind),
			coqStr(r.prot), coqStr(r.fn), coqStr(r.file), r.line, sep)
	}
	b.WriteString("].\n\n")

	b.WriteString("(* every field of the tracked structs with its declared type *)\nDefinition struct_fields : list (string * string * string) := [\n")
	first := true
	for _, g := range gens {
		for _, t := range c12Tracked[g.p.name] {
			for _, f := range g.p.order[t] {
				if !first {
					b.WriteString(";\n")
				}
				first = false
				fmt.Fprintf(b, "  (%s, %s, %s)", coqStr(g.qual(t)), coqStr(f), coqStr(g.p.structs[t][f]))
			}
		}
	}
	b.WriteString("\n].\n\n")

	b.WriteString("(* calls from package chpool on a *ch.Client: role, method, calling function, line *)\nDefinition pool_client_calls : list (string * string * string * N) := [\n")
	var cs [][3]string
	lines := map[[3]string]int{}
	for _, g := range gens {
		for k, l := range g.calls {
			cs = append(cs, k)
			lines[k] = l
		}
	}
	sort.Slice(cs, func(i, j int) bool { return strings.Join(cs[i][:], "|") < strings.Join(cs[j][:], "|") })
	for i, k := range cs {
		sep := ";"
		if i == len(cs)-1 {
			sep = ""
		}
		fmt.Fprintf(b, "  (%s, %s, %s, %d)%s\n", coqStr(k[0]), coqStr(k[1]), coqStr(k[2]), lines[k], sep)
	}
	b.WriteString("].\n")
}

func init() {
	registerGen([]string{"Access.v"}, func(repo, out string) {
		chp := c12Load(repo, "ch", ".")
		g1 := &c12Gen{p: chp, rows: map[c12Row]bool{}, calls: map[[3]string]int{}, seen: map[string]bool{}}
		g1.entry("Client.Do", "DoBefore")
		g1.entry("Dial", "HsBefore")
		g1.entry("Connect", "HsBefore")
		g1.entry("Client.Ping", "OwnerCall")
		g1.entry("Client.ServerInfo", "OwnerCall")
		g1.entry("Client.Close", "Foreign")
		g1.entry("Client.IsClosed", "Foreign")

		pp := c12Load(repo, "chpool", "chpool")
		g2 := &c12Gen{p: pp, rows: map[c12Row]bool{}, calls: map[[3]string]int{}, seen: map[string]bool{}}
		g2.entry("Dial", "PoolNew")
		g2.entry("New", "PoolNew")
		for _, k := range []string{"Pool.Acquire", "Pool.Do", "Pool.Ping", "Pool.Stat", "Client.Release", "Client.Do", "Client.Ping"} {
			g2.entry(k, "PoolUser")
		}
		g2.entry("Pool.Close", "PoolClose")
		// every exported method of the tracked types must be an entry point or reachable from one
		for _, g := range []*c12Gen{g1, g2} {
			for key, fd := range g.p.funcs {
				recv, _, isMethod := strings.Cut(key, ".")
				if !isMethod || !ast.IsExported(fd.Name.Name) || g.p.structs[recv] == nil {
					continue
				}
				reached := false
				for id := range g.seen {
					if strings.HasPrefix(id, key+"|") {
						reached = true
					}
				}
				if !reached {
					die("c12: exported method %s.%s is not covered by any goroutine role of the model: shape not recognised", g.p.name, key)
				}
			}
		}
		var b bytes.Buffer
		header(&b, "field accesses per goroutine role (packages ch and chpool)")
		c12Emit(&b, []*c12Gen{g1, g2})
		writeFile(out, "Access.v", &b)
		_ = filepath.Join
	})
}
