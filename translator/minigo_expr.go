package main

// minigo_expr.go — constants and expressions of the MiniGo fragment (see minigo.go).

import (
	"fmt"
	"go/ast"
	"go/constant"
	"go/token"
	"strings"
)

type mgLocal struct {
	T   *mgType
	Coq string
}

type mgCtx struct {
	m          *minigo
	fn         *mgFunc
	env        map[string]*mgLocal
	guards     []string // divisors of the statement being translated that are not constants
	inCond     int      // > 0 under && / ||
	sawPartial bool
}

// an expression: Coq text, Go type (nil = untyped integer constant), constant value if constant
type mgVal struct {
	Txt  string
	T    *mgType
	C    constant.Value
	Atom bool
}

func (v mgVal) par() string {
	if v.Atom {
		return v.Txt
	}
	return "(" + v.Txt + ")"
}

func mgConstVal(c constant.Value, t *mgType) mgVal {
	return mgVal{Txt: mgZ(mgBig(c)), T: t, C: c, Atom: true}
}

// ---- const blocks ---------------------------------------------------------------------------------------

func (m *minigo) readConsts(rel string, f *ast.File) {
	for _, d := range f.Decls {
		gd, ok := d.(*ast.GenDecl)
		if !ok || gd.Tok != token.CONST {
			continue
		}
		var lastVals []ast.Expr
		var lastType ast.Expr
		for i, s := range gd.Specs {
			vs := s.(*ast.ValueSpec)
			vals, typ := vs.Values, vs.Type
			if len(vals) == 0 {
				vals, typ = lastVals, lastType
			} else {
				lastVals, lastType = vals, typ
			}
			for j, n := range vs.Names {
				if j >= len(vals) || n.Name == "_" {
					continue
				}
				v, ok := m.tryConst(vals[j], int64(i))
				if !ok || v.C == nil || mgBig(v.C) == nil {
					continue // not an integer constant of the fragment: only an error if a function uses it
				}
				t := v.T
				if typ != nil {
					tt, ok2 := m.tryType(typ)
					if !ok2 || tt.Kind != mgInt {
						continue
					}
					if !mgRepresentable(v.C, tt) {
						mgFail(vs, "constant %s overflows %s", n.Name, tt)
					}
					t = tt
				}
				coq := mgZ(mgBig(v.C))
				if mgNamedConstFiles[rel] {
					coq = coqName(n.Name)
				}
				m.consts[n.Name] = &mgConst{Val: v.C, T: t, Coq: coq}
			}
		}
	}
}

func (m *minigo) tryType(e ast.Expr) (t *mgType, ok bool) {
	defer func() {
		if r := recover(); r != nil {
			if _, is := r.(mgErr); !is {
				panic(r)
			}
			t, ok = nil, false
		}
	}()
	return m.typeOf(e), true
}

func (m *minigo) tryConst(e ast.Expr, iota int64) (v mgVal, ok bool) {
	defer func() {
		if r := recover(); r != nil {
			if _, is := r.(mgErr); !is {
				panic(r)
			}
			ok = false
		}
	}()
	c := &mgCtx{m: m, fn: &mgFunc{Imports: map[string]string{"time": "time", "math": "math"}}, env: map[string]*mgLocal{}}
	c.env["iota"] = nil
	v = c.exprIota(e, iota)
	return v, v.C != nil
}

func (c *mgCtx) exprIota(e ast.Expr, iota int64) mgVal {
	// substitute iota syntactically: const blocks only
	var sub func(ast.Expr) ast.Expr
	sub = func(e ast.Expr) ast.Expr {
		switch x := e.(type) {
		case *ast.Ident:
			if x.Name == "iota" {
				return &ast.BasicLit{ValuePos: x.Pos(), Kind: token.INT, Value: fmt.Sprint(iota)}
			}
		case *ast.BinaryExpr:
			return &ast.BinaryExpr{X: sub(x.X), OpPos: x.OpPos, Op: x.Op, Y: sub(x.Y)}
		case *ast.ParenExpr:
			return &ast.ParenExpr{Lparen: x.Lparen, X: sub(x.X), Rparen: x.Rparen}
		case *ast.UnaryExpr:
			return &ast.UnaryExpr{OpPos: x.OpPos, Op: x.Op, X: sub(x.X)}
		case *ast.CallExpr:
			args := make([]ast.Expr, len(x.Args))
			for i, a := range x.Args {
				args[i] = sub(a)
			}
			return &ast.CallExpr{Fun: x.Fun, Lparen: x.Lparen, Args: args, Rparen: x.Rparen}
		}
		return e
	}
	delete(c.env, "iota")
	return c.expr(sub(e))
}

// ---- coercion ------------------------------------------------------------------------------------------

// coerce gives v the type want: an untyped constant must be representable, a typed value must already
// have a type of the same representation (the Go compiler has checked assignability; this guards the
// translator's own type assignment).
func (c *mgCtx) coerce(v mgVal, want *mgType, at ast.Node) mgVal {
	if v.T == nil {
		if want.Kind != mgInt {
			mgFail(at, "integer constant used as %s", want)
		}
		if !mgRepresentable(v.C, want) {
			mgFail(at, "constant %s is not representable in %s", v.Txt, want)
		}
		v.T = want
		return v
	}
	if !v.T.compatible(want) {
		mgFail(at, "translator type assignment: %s where %s is expected (%s)", v.T, want, exprText(at.(ast.Expr)))
	}
	return v
}

func (c *mgCtx) defaultType(v mgVal) mgVal {
	if v.T == nil {
		return c.coerce(v, mgBuiltin("int"), nil)
	}
	return v
}

// ---- expressions ------------------------------------------------------------------------------------------

func (c *mgCtx) lib(id *ast.Ident) (string, bool) {
	if _, isLocal := c.env[id.Name]; isLocal {
		return "", false
	}
	l, ok := c.fn.Imports[id.Name]
	return l, ok
}

func (c *mgCtx) expr(e ast.Expr) mgVal {
	switch x := e.(type) {
	case *ast.BasicLit:
		if x.Kind != token.INT {
			mgFail(x, "literal %s is outside the fragment (integers only)", x.Value)
		}
		return mgConstVal(constant.MakeFromLiteral(x.Value, token.INT, 0), nil)
	case *ast.ParenExpr:
		return c.expr(x.X)
	case *ast.Ident:
		return c.ident(x)
	case *ast.SelectorExpr:
		return c.selector(x)
	case *ast.UnaryExpr:
		return c.unary(x)
	case *ast.BinaryExpr:
		return c.binary(x)
	case *ast.CallExpr:
		return c.call(x)
	case *ast.CompositeLit:
		return c.composite(x)
	case *ast.SliceExpr:
		if x.Low != nil || x.High != nil || x.Max != nil {
			mgFail(x, "slice expression with bounds %s", exprText(x))
		}
		v := c.expr(x.X)
		if v.T == nil || v.T.Kind != mgBytes {
			mgFail(x, "slice of %s", v.T)
		}
		return v
	}
	mgFail(e, "expression %T `%s` is outside the fragment", e, exprText(e))
	return mgVal{}
}

func (c *mgCtx) ident(x *ast.Ident) mgVal {
	if l, ok := c.env[x.Name]; ok && l != nil {
		return mgVal{Txt: l.Coq, T: l.T, Atom: true}
	}
	switch x.Name {
	case "true", "false":
		return mgVal{Txt: x.Name, T: mgBuiltin("bool"), Atom: true}
	}
	if k, ok := c.m.consts[x.Name]; ok {
		if k.Coq != mgZ(mgBig(k.Val)) {
			c.m.usedNames[k.Coq] = mgZ(mgBig(k.Val))
		}
		return mgVal{Txt: k.Coq, T: k.T, C: k.Val, Atom: true}
	}
	mgFail(x, "identifier %s is not a local, a parameter or an integer constant of the whitelisted files", x.Name)
	return mgVal{}
}

func (c *mgCtx) selector(x *ast.SelectorExpr) mgVal {
	if id, ok := x.X.(*ast.Ident); ok {
		if lib, ok := c.lib(id); ok {
			q := lib + "." + x.Sel.Name
			if k, ok := mgConstPrims[q]; ok {
				cv := constant.MakeFromLiteral(k[1], token.INT, 0)
				var t *mgType
				if k[2] != "" {
					t = mgBuiltin(k[2])
				}
				if k[0] != k[1] {
					c.m.usedNames[k[0]] = k[1]
				}
				return mgVal{Txt: k[0], T: t, C: cv, Atom: true}
			}
			switch q {
			case "time.UTC":
				return mgVal{Txt: "0", T: mgBuiltin("*time.Location"), Atom: true}
			case "time.Local":
				c.fn.UsesLoc = true
				return mgVal{Txt: "loc", T: mgBuiltin("*time.Location"), Atom: true}
			}
			mgFail(x, "%s is not in the primitive table", q)
		}
	}
	v := c.expr(x.X)
	if v.T == nil || v.T.Kind != mgStruct {
		mgFail(x, "field selection %s on %s", exprText(x), v.T)
	}
	for _, f := range v.T.S.Fields {
		if f.Name == x.Sel.Name {
			return mgVal{Txt: f.Proj + " " + v.par(), T: f.T}
		}
	}
	mgFail(x, "struct %s has no field %s", v.T, x.Sel.Name)
	return mgVal{}
}

func (c *mgCtx) unary(x *ast.UnaryExpr) mgVal {
	v := c.expr(x.X)
	switch x.Op {
	case token.ADD:
		return v
	case token.SUB:
		if v.C != nil {
			r := constant.UnaryOp(token.SUB, v.C, 0)
			if v.T != nil && !mgRepresentable(r, v.T) {
				mgFail(x, "constant %s overflows %s", exprText(x), v.T)
			}
			return mgConstVal(r, v.T)
		}
		if v.T.Kind != mgInt {
			mgFail(x, "unary minus on %s", v.T)
		}
		return mgVal{Txt: v.T.wrap() + " (- " + v.par() + ")", T: v.T}
	case token.NOT:
		if v.T == nil || v.T.Kind != mgBool {
			mgFail(x, "! on %s", v.T)
		}
		return mgVal{Txt: "negb " + v.par(), T: v.T}
	}
	mgFail(x, "unary operator %s is outside the fragment", x.Op)
	return mgVal{}
}

var mgArith = map[token.Token]string{token.ADD: "+", token.SUB: "-", token.MUL: "*"}
var mgFun2 = map[token.Token]string{token.QUO: "Z.quot", token.REM: "Z.rem", token.AND: "Z.land", token.OR: "Z.lor",
	token.XOR: "Z.lxor", token.SHL: "Z.shiftl", token.SHR: "Z.shiftr"}

func (c *mgCtx) binary(x *ast.BinaryExpr) mgVal {
	switch x.Op {
	case token.LAND, token.LOR:
		c.inCond++
		a, b := c.expr(x.X), c.expr(x.Y)
		c.inCond--
		if a.T == nil || b.T == nil || a.T.Kind != mgBool || b.T.Kind != mgBool {
			mgFail(x, "%s on non-boolean operands", x.Op)
		}
		op := "&&"
		if x.Op == token.LOR {
			op = "||"
		}
		return mgVal{Txt: a.par() + " " + op + " " + b.par(), T: a.T}
	}
	a, b := c.expr(x.X), c.expr(x.Y)
	shift := x.Op == token.SHL || x.Op == token.SHR
	if shift {
		// the count is any unsigned value or a non-negative constant; the result has the type of the left operand
		if b.C != nil {
			if mgBig(b.C).Sign() < 0 || mgBig(b.C).BitLen() > 16 {
				mgFail(x, "shift count %s", b.Txt)
			}
		} else if b.T.Kind != mgInt || b.T.Signed {
			mgFail(x, "shift count of type %s (unsigned or constant only)", b.T)
		}
	} else {
		switch {
		case a.T == nil && b.T == nil:
		case a.T == nil:
			a = c.coerce(a, b.T, x.X)
		case b.T == nil:
			b = c.coerce(b, a.T, x.Y)
		default:
			if !a.T.compatible(b.T) {
				mgFail(x, "translator type assignment: operands %s and %s of %s", a.T, b.T, exprText(x))
			}
		}
	}
	t := a.T
	if t == nil && shift && a.C == nil {
		mgFail(x, "shift of an untyped non-constant")
	}
	// comparisons
	switch x.Op {
	case token.EQL, token.NEQ, token.LSS, token.LEQ, token.GTR, token.GEQ:
		if a.C != nil && b.C != nil {
			r := "false"
			if constant.Compare(a.C, x.Op, b.C) {
				r = "true"
			}
			return mgVal{Txt: r, T: mgBuiltin("bool"), Atom: true}
		}
		if t.Kind == mgBool && (x.Op == token.EQL || x.Op == token.NEQ) {
			s := "Bool.eqb " + a.par() + " " + b.par()
			if x.Op == token.NEQ {
				s = "negb (" + s + ")"
			}
			return mgVal{Txt: s, T: mgBuiltin("bool")}
		}
		if t.Kind != mgInt {
			mgFail(x, "comparison of %s values is outside the fragment", t)
		}
		var s string
		switch x.Op {
		case token.EQL:
			s = a.par() + " =? " + b.par()
		case token.NEQ:
			s = "negb (" + a.par() + " =? " + b.par() + ")"
		case token.LSS:
			s = a.par() + " <? " + b.par()
		case token.LEQ:
			s = a.par() + " <=? " + b.par()
		case token.GTR:
			s = b.par() + " <? " + a.par()
		case token.GEQ:
			s = b.par() + " <=? " + a.par()
		}
		return mgVal{Txt: s, T: mgBuiltin("bool")}
	}
	_, isArith := mgArith[x.Op]
	_, isFun := mgFun2[x.Op]
	if !isArith && !isFun {
		mgFail(x, "operator %s is outside the fragment", x.Op)
	}
	if t != nil && t.Kind != mgInt {
		mgFail(x, "operator %s on %s", x.Op, t)
	}
	// constant folding, exactly as the compiler: arbitrary precision, then representability
	if a.C != nil && b.C != nil {
		var r constant.Value
		switch x.Op {
		case token.QUO, token.REM:
			if mgBig(b.C).Sign() == 0 {
				mgFail(x, "constant division by zero")
			}
			op := x.Op
			if op == token.QUO {
				op = token.QUO_ASSIGN // integer division
			}
			r = constant.BinaryOp(a.C, op, b.C)
		case token.SHL, token.SHR:
			n, _ := constant.Uint64Val(b.C)
			r = constant.Shift(a.C, x.Op, uint(n))
		default:
			r = constant.BinaryOp(a.C, x.Op, b.C)
		}
		if t != nil && !mgRepresentable(r, t) {
			mgFail(x, "constant %s overflows %s", exprText(x), t)
		}
		return mgConstVal(r, t)
	}
	// division: by a non-zero constant, or guarded
	if x.Op == token.QUO || x.Op == token.REM {
		if b.C != nil {
			if mgBig(b.C).Sign() == 0 {
				mgFail(x, "division by the constant zero")
			}
		} else {
			if c.inCond > 0 {
				mgFail(x, "division by a non-constant under && or || (its panic cannot be hoisted)")
			}
			c.sawPartial = true
			dup := false
			for _, g := range c.guards {
				dup = dup || g == b.par()
			}
			if !dup {
				c.guards = append(c.guards, b.par())
			}
		}
	}
	var body string
	if isArith {
		body = a.par() + " " + mgArith[x.Op] + " " + b.par()
	} else {
		body = mgFun2[x.Op] + " " + a.par() + " " + b.par()
	}
	switch x.Op {
	case token.AND, token.OR, token.XOR, token.SHR:
		return mgVal{Txt: body, T: t} // stays within the type's range
	}
	return mgVal{Txt: t.wrap() + " (" + body + ")", T: t}
}

// convert: the conversion T(e)
func (c *mgCtx) convert(t *mgType, arg ast.Expr, at ast.Node) mgVal {
	v := c.expr(arg)
	switch t.Kind {
	case mgInt:
		if v.C != nil {
			if !mgRepresentable(v.C, t) {
				mgFail(at, "constant %s is not representable in %s", v.Txt, t)
			}
			v.T = t
			return v
		}
		if v.T.Kind != mgInt {
			mgFail(at, "conversion of %s to %s", v.T, t)
		}
		if v.T.compatible(t) {
			v.T = t // same width and signedness: the representation is unchanged
			return v
		}
		return mgVal{Txt: t.wrap() + " " + v.par(), T: t}
	case mgStruct, mgBytes:
		if v.T == nil || !v.T.compatible(t) {
			mgFail(at, "conversion of %s to %s", v.T, t)
		}
		v.T = t
		return v
	}
	mgFail(at, "conversion to %s is outside the fragment", t)
	return mgVal{}
}

func (c *mgCtx) args(call *ast.CallExpr, types []*mgType, what string) []string {
	if len(call.Args) != len(types) || call.Ellipsis != token.NoPos {
		mgFail(call, "%s takes %d arguments", what, len(types))
	}
	out := make([]string, len(types))
	for i, a := range call.Args {
		out[i] = c.coerce(c.expr(a), types[i], a).par()
	}
	return out
}

// callee classifies the function part of a call.
type mgCallee struct {
	Conv   *mgType
	Prim   *mgPrim
	PrimQ  string
	Fn     *mgFunc
	Recv   *mgVal
	Panic  bool
	PutU32 bool
}

func (c *mgCtx) callee(call *ast.CallExpr) mgCallee {
	switch f := call.Fun.(type) {
	case *ast.ParenExpr:
		if t, ok := c.m.tryType(f.X); ok {
			return mgCallee{Conv: t}
		}
	case *ast.ArrayType:
		return mgCallee{Conv: c.m.typeOf(f)}
	case *ast.Ident:
		if _, isLocal := c.env[f.Name]; isLocal {
			mgFail(call, "call of the local %s", f.Name)
		}
		if f.Name == "panic" {
			return mgCallee{Panic: true}
		}
		if t := c.m.resolveNamed(f.Name, f); t != nil {
			return mgCallee{Conv: t}
		}
		if fn, ok := c.m.funcs[f.Name]; ok {
			return mgCallee{Fn: fn}
		}
		if t := mgBuiltin(f.Name); t != nil {
			return mgCallee{Conv: t}
		}
		mgFail(call, "call of %s, which is not a whitelisted function, a type or a primitive", f.Name)
	case *ast.SelectorExpr:
		q := ""
		if id, ok := f.X.(*ast.Ident); ok {
			if lib, ok := c.lib(id); ok {
				q = lib + "." + f.Sel.Name
			}
		} else if s2, ok := f.X.(*ast.SelectorExpr); ok {
			if id, ok := s2.X.(*ast.Ident); ok {
				if lib, ok := c.lib(id); ok {
					q = lib + "." + s2.Sel.Name + "." + f.Sel.Name
				}
			}
		}
		if q != "" {
			if t := mgBuiltin(q); t != nil {
				return mgCallee{Conv: t}
			}
			if q == "binary.BigEndian.PutUint32" {
				return mgCallee{PutU32: true}
			}
			if p, ok := mgFuncPrims[q]; ok {
				return mgCallee{Prim: &p, PrimQ: q}
			}
			mgFail(call, "%s is not in the primitive table", q)
		}
		recv := c.expr(f.X)
		if recv.T == nil {
			mgFail(call, "method call on an untyped constant")
		}
		switch recv.T.Kind {
		case mgTime, mgAddr:
			q := recv.T.Name + "." + f.Sel.Name
			if q == "time.Time.Zone" {
				mgFail(call, "t.Zone() is supported only as `_, off := t.Zone()`")
			}
			p, ok := mgMethodPrims[q]
			if !ok {
				mgFail(call, "%s is not in the primitive table", q)
			}
			return mgCallee{Prim: &p, PrimQ: q, Recv: &recv}
		}
		key := recv.T.Name + "." + f.Sel.Name
		if fn, ok := c.m.funcs[key]; ok {
			return mgCallee{Fn: fn, Recv: &recv}
		}
		mgFail(call, "call of %s, which is not a whitelisted method", key)
	}
	mgFail(call, "call %s is outside the fragment", exprText(call))
	return mgCallee{}
}

// callText translates a call of a primitive or of a whitelisted function; partial = the text is an option
func (c *mgCtx) callText(call *ast.CallExpr, k mgCallee) (v mgVal, partial bool) {
	switch {
	case k.Prim != nil:
		p := k.Prim
		var ts []*mgType
		for _, a := range p.Args {
			ts = append(ts, mgBuiltin(a))
		}
		args := c.args(call, ts, k.PrimQ)
		parts := []string{p.Coq}
		if p.Loc {
			c.fn.UsesLoc = true
			parts = append(parts, "loc")
		}
		if k.Recv != nil && !p.ArgsFirst {
			parts = append(parts, k.Recv.par())
		}
		parts = append(parts, args...)
		if k.Recv != nil && p.ArgsFirst {
			parts = append(parts, k.Recv.par())
		}
		return mgVal{Txt: strings.Join(parts, " "), T: mgBuiltin(p.Res)}, p.Partial
	case k.Fn != nil:
		fn := k.Fn
		c.m.translate(fn, call)
		if fn.Err != "" {
			mgFail(call, "callee %s was not translated", fn.Key)
		}
		parts := []string{fn.CoqName}
		if fn.UsesLoc {
			c.fn.UsesLoc = true
			parts = append(parts, "loc")
		}
		ps := fn.Params
		if k.Recv != nil {
			parts = append(parts, c.coerce(*k.Recv, ps[0].T, call).par())
			ps = ps[1:]
		}
		var ts []*mgType
		for _, p := range ps {
			ts = append(ts, p.T)
		}
		parts = append(parts, c.args(call, ts, fn.Key)...)
		return mgVal{Txt: strings.Join(parts, " "), T: fn.Res}, fn.Partial
	}
	mgFail(call, "call %s is outside the fragment", exprText(call))
	return mgVal{}, false
}

func (c *mgCtx) call(x *ast.CallExpr) mgVal {
	k := c.callee(x)
	switch {
	case k.Conv != nil:
		if len(x.Args) != 1 {
			mgFail(x, "conversion with %d arguments", len(x.Args))
		}
		return c.convert(k.Conv, x.Args[0], x)
	case k.Panic:
		mgFail(x, "panic in expression position")
	case k.PutU32:
		mgFail(x, "binary.BigEndian.PutUint32 in expression position")
	}
	v, partial := c.callText(x, k)
	if partial {
		mgFail(x, "call of %s, which can panic, in expression position (allowed as `x := f(..)` or `return f(..)`)", exprText(x.Fun))
	}
	return v
}

func (c *mgCtx) zero(t *mgType, at ast.Node) string {
	switch t.Kind {
	case mgInt:
		return "0"
	case mgBool:
		return "false"
	case mgBytes:
		z := make([]string, t.N)
		for i := range z {
			z[i] = "0"
		}
		return "[" + strings.Join(z, "; ") + "]"
	case mgStruct:
		c.m.useRecord(t)
		parts := []string{t.S.Ctor}
		for _, f := range t.S.Fields {
			parts = append(parts, c.zero(f.T, at))
		}
		return "(" + strings.Join(parts, " ") + ")"
	}
	mgFail(at, "zero value of %s is outside the fragment", t)
	return ""
}

func (c *mgCtx) composite(x *ast.CompositeLit) mgVal {
	if x.Type == nil {
		mgFail(x, "composite literal without a type")
	}
	t := c.m.typeOf(x.Type)
	if t.Kind != mgStruct {
		mgFail(x, "composite literal of %s", t)
	}
	c.m.useRecord(t)
	vals := map[string]string{}
	for _, el := range x.Elts {
		kv, ok := el.(*ast.KeyValueExpr)
		if !ok {
			mgFail(el, "positional struct literal")
		}
		key, ok := kv.Key.(*ast.Ident)
		if !ok {
			mgFail(el, "struct literal key %s", exprText(kv.Key))
		}
		var ft *mgType
		for _, f := range t.S.Fields {
			if f.Name == key.Name {
				ft = f.T
			}
		}
		if ft == nil {
			mgFail(el, "struct %s has no field %s", t, key.Name)
		}
		if _, dup := vals[key.Name]; dup {
			mgFail(el, "duplicate field %s", key.Name)
		}
		vals[key.Name] = c.coerce(c.expr(kv.Value), ft, kv.Value).par()
	}
	parts := []string{t.S.Ctor}
	for _, f := range t.S.Fields {
		if v, ok := vals[f.Name]; ok {
			parts = append(parts, v)
		} else {
			parts = append(parts, c.zero(f.T, x))
		}
	}
	return mgVal{Txt: strings.Join(parts, " "), T: t}
}
