package main

// minigo_expr.go — constants and expressions of the MiniGo fragment (see minigo.go).

import (
	"fmt"
	"go/ast"
	"go/constant"
	"go/token"
	"strconv"
	"strings"
)

type mgLocal struct {
	T   *mgType
	Coq string
}

type mgCtx struct {
	m          *minigo
	fn         *mgFunc
	env        map[string]*mgLocal
	guards     []string // lines written before the statement being translated: `if (divisor =? 0) then None else`, `if slice_oob s i then None else`, `TRY tmp <- call IN`
	inCond     int      // > 0 under && / ||
	sawPartial bool
	ntmp       int // temporaries of hoisted calls
	loopDepth  int // > 0 inside a range loop body (no return there)
}

// hoist writes a line before the statement being translated: a run-time check or a partial call, whose failure is the
// function's None.  Only where Go would evaluate it unconditionally.
func (c *mgCtx) hoist(line string, at ast.Node, what string) {
	if c.inCond > 0 {
		mgFail(at, "%s under && or || (its panic cannot be hoisted)", what)
	}
	c.sawPartial = true
	for _, g := range c.guards {
		if g == line {
			return
		}
	}
	c.guards = append(c.guards, line)
}

func (c *mgCtx) tmp() string {
	c.ntmp++
	return fmt.Sprintf("tmp%d", c.ntmp)
}

// bindPartial: a call that can panic, in expression position
func (c *mgCtx) bindPartial(v mgVal, at ast.Node, what string) mgVal {
	t := c.tmp()
	c.hoist("TRY "+t+" <- "+v.Txt+" IN", at, what)
	return mgVal{Txt: t, T: v.T, Atom: true}
}

// an expression: Coq text, Go type (nil = untyped integer constant), constant value if constant
type mgVal struct {
	Txt  string
	T    *mgType
	C    constant.Value
	Atom bool
}

func (v mgVal) par() string {
	if v.Atom {
		return v.Txt
	}
	return "(" + v.Txt + ")"
}

func mgConstVal(c constant.Value, t *mgType) mgVal {
	return mgVal{Txt: mgZ(mgBig(c)), T: t, C: c, Atom: true}
}

// ---- const blocks ---------------------------------------------------------------------------------------

func (m *minigo) readConsts(rel string, f *ast.File) {
	for _, d := range f.Decls {
		gd, ok := d.(*ast.GenDecl)
		if !ok || gd.Tok != token.CONST {
			continue
		}
		var lastVals []ast.Expr
		var lastType ast.Expr
		for i, s := range gd.Specs {
			vs := s.(*ast.ValueSpec)
			vals, typ := vs.Values, vs.Type
			if len(vals) == 0 {
				vals, typ = lastVals, lastType
			} else {
				lastVals, lastType = vals, typ
			}
			for j, n := range vs.Names {
				if j >= len(vals) || n.Name == "_" {
					continue
				}
				v, ok := m.tryConst(vals[j], int64(i))
				if !ok || v.C == nil || mgBig(v.C) == nil {
					continue // not an integer constant of the fragment: only an error if a function uses it
				}
				t := v.T
				if typ != nil {
					tt, ok2 := m.tryType(typ)
					if !ok2 || tt.Kind != mgInt {
						continue
					}
					if !mgRepresentable(v.C, tt) {
						mgFail(vs, "constant %s overflows %s", n.Name, tt)
					}
					t = tt
				}
				coq := mgZ(mgBig(v.C))
				if mgNamedConstFiles[rel] {
					coq = coqName(n.Name)
				}
				m.consts[n.Name] = &mgConst{Val: v.C, T: t, Coq: coq}
			}
		}
	}
}

func (m *minigo) tryType(e ast.Expr) (t *mgType, ok bool) {
	defer func() {
		if r := recover(); r != nil {
			if _, is := r.(mgErr); !is {
				panic(r)
			}
			t, ok = nil, false
		}
	}()
	return m.typeOf(e), true
}

func (m *minigo) tryConst(e ast.Expr, iota int64) (v mgVal, ok bool) {
	defer func() {
		if r := recover(); r != nil {
			if _, is := r.(mgErr); !is {
				panic(r)
			}
			ok = false
		}
	}()
	c := &mgCtx{m: m, fn: &mgFunc{Imports: map[string]string{"time": "time", "math": "math"}}, env: map[string]*mgLocal{}}
	c.env["iota"] = nil
	v = c.exprIota(e, iota)
	return v, v.C != nil
}

func (c *mgCtx) exprIota(e ast.Expr, iota int64) mgVal {
	// substitute iota syntactically: const blocks only
	var sub func(ast.Expr) ast.Expr
	sub = func(e ast.Expr) ast.Expr {
		switch x := e.(type) {
		case *ast.Ident:
			if x.Name == "iota" {
				return &ast.BasicLit{ValuePos: x.Pos(), Kind: token.INT, Value: fmt.Sprint(iota)}
			}
		case *ast.BinaryExpr:
			return &ast.BinaryExpr{X: sub(x.X), OpPos: x.OpPos, Op: x.Op, Y: sub(x.Y)}
		case *ast.ParenExpr:
			return &ast.ParenExpr{Lparen: x.Lparen, X: sub(x.X), Rparen: x.Rparen}
		case *ast.UnaryExpr:
			return &ast.UnaryExpr{OpPos: x.OpPos, Op: x.Op, X: sub(x.X)}
		case *ast.CallExpr:
			args := make([]ast.Expr, len(x.Args))
			for i, a := range x.Args {
				args[i] = sub(a)
			}
			return &ast.CallExpr{Fun: x.Fun, Lparen: x.Lparen, Args: args, Rparen: x.Rparen}
		}
		return e
	}
	delete(c.env, "iota")
	return c.expr(sub(e))
}

// ---- coercion ------------------------------------------------------------------------------------------

// coerce gives v the type want: an untyped constant must be representable, a typed value must already
// have a type of the same representation (the Go compiler has checked assignability; this guards the
// translator's own type assignment).
func (c *mgCtx) coerce(v mgVal, want *mgType, at ast.Node) mgVal {
	if v.T != nil && v.T.Kind == mgNil {
		switch want.Kind {
		case mgLocOpt:
			return mgVal{Txt: "None", T: want, Atom: true}
		case mgError:
			return mgVal{Txt: "err_nil", T: want, Atom: true}
		}
		mgFail(at, "nil used as %s", want)
	}
	if v.T != nil && v.T.Kind == mgLoc && want.Kind == mgLocOpt {
		return mgVal{Txt: "Some " + v.par(), T: want} // time.UTC / time.Local are not nil
	}
	if v.T != nil && v.T.Kind == mgLocOpt && want.Kind == mgLoc {
		// a nil-able location where the library dereferences it (Time.In, time.Date): nil panics
		return c.bindPartial(mgVal{Txt: v.Txt, T: want}, at, "use of a nil-able *time.Location")
	}
	if v.T == nil {
		if want.Kind != mgInt {
			mgFail(at, "integer constant used as %s", want)
		}
		if !mgRepresentable(v.C, want) {
			mgFail(at, "constant %s is not representable in %s", v.Txt, want)
		}
		v.T = want
		return v
	}
	if !v.T.compatible(want) {
		txt := "?"
		if e, ok := at.(ast.Expr); ok {
			txt = exprText(e)
		}
		mgFail(at, "translator type assignment: %s where %s is expected (%s)", v.T, want, txt)
	}
	return v
}

func (c *mgCtx) defaultType(v mgVal) mgVal {
	if v.T == nil {
		return c.coerce(v, mgBuiltin("int"), nil)
	}
	return v
}

// ---- expressions ------------------------------------------------------------------------------------------

func (c *mgCtx) lib(id *ast.Ident) (string, bool) {
	if _, isLocal := c.env[id.Name]; isLocal {
		return "", false
	}
	l, ok := c.fn.Imports[id.Name]
	return l, ok
}

func (c *mgCtx) expr(e ast.Expr) mgVal {
	switch x := e.(type) {
	case *ast.BasicLit:
		if x.Kind == token.STRING {
			return mgVal{Txt: mgBytesLit(c.strLit(x)), T: mgBuiltin("string"), Atom: true}
		}
		if x.Kind != token.INT {
			mgFail(x, "literal %s is outside the fragment (integers and strings only)", x.Value)
		}
		return mgConstVal(constant.MakeFromLiteral(x.Value, token.INT, 0), nil)
	case *ast.StarExpr:
		// *c for the pointer receiver c
		if id, ok := x.X.(*ast.Ident); ok && c.fn.PtrRecv && id.Name == c.fn.RecvGo {
			return c.ident(id)
		}
		mgFail(x, "dereference %s is outside the fragment (only *c for the pointer receiver c)", exprText(x))
	case *ast.IndexExpr:
		s := c.expr(x.X)
		if s.T == nil || s.T.Kind != mgSlice || s.T.Elem.Kind != mgInt {
			mgFail(x, "index of %s (slices of integers only)", s.T)
		}
		i := c.coerce(c.expr(x.Index), mgBuiltin("int"), x.Index)
		c.hoist("if slice_oob "+s.par()+" "+i.par()+" then None else", x, "the index expression "+exprText(x))
		return mgVal{Txt: "slice_get " + s.par() + " " + i.par(), T: s.T.Elem}
	case *ast.ParenExpr:
		return c.expr(x.X)
	case *ast.Ident:
		return c.ident(x)
	case *ast.SelectorExpr:
		return c.selector(x)
	case *ast.UnaryExpr:
		return c.unary(x)
	case *ast.BinaryExpr:
		return c.binary(x)
	case *ast.CallExpr:
		return c.call(x)
	case *ast.CompositeLit:
		return c.composite(x)
	case *ast.SliceExpr:
		if x.Low != nil || x.High != nil || x.Max != nil {
			mgFail(x, "slice expression with bounds %s", exprText(x))
		}
		v := c.expr(x.X)
		if v.T == nil || v.T.Kind != mgBytes {
			mgFail(x, "slice of %s", v.T)
		}
		return v
	}
	mgFail(e, "expression %T `%s` is outside the fragment", e, exprText(e))
	return mgVal{}
}

func (c *mgCtx) ident(x *ast.Ident) mgVal {
	if l, ok := c.env[x.Name]; ok && l != nil {
		return mgVal{Txt: l.Coq, T: l.T, Atom: true}
	}
	switch x.Name {
	case "true", "false":
		return mgVal{Txt: x.Name, T: mgBuiltin("bool"), Atom: true}
	case "nil":
		return mgVal{Txt: "nil", T: &mgType{Kind: mgNil}, Atom: true}
	}
	if k, ok := c.m.consts[x.Name]; ok {
		if k.Coq != mgZ(mgBig(k.Val)) {
			c.m.usedNames[k.Coq] = mgZ(mgBig(k.Val))
		}
		return mgVal{Txt: k.Coq, T: k.T, C: k.Val, Atom: true}
	}
	mgFail(x, "identifier %s is not a local, a parameter or an integer constant of the whitelisted files", x.Name)
	return mgVal{}
}

func (c *mgCtx) selector(x *ast.SelectorExpr) mgVal {
	if id, ok := x.X.(*ast.Ident); ok {
		if lib, ok := c.lib(id); ok {
			q := lib + "." + x.Sel.Name
			if k, ok := mgConstPrims[q]; ok {
				cv := constant.MakeFromLiteral(k[1], token.INT, 0)
				var t *mgType
				if k[2] != "" {
					t = mgBuiltin(k[2])
				}
				if k[0] != k[1] {
					c.m.usedNames[k[0]] = k[1]
				}
				return mgVal{Txt: k[0], T: t, C: cv, Atom: true}
			}
			switch q {
			case "time.UTC":
				return mgVal{Txt: "0", T: mgBuiltin("*time.Location"), Atom: true}
			case "time.Local":
				c.fn.UsesLoc = true
				return mgVal{Txt: "loc", T: mgBuiltin("*time.Location"), Atom: true}
			}
			mgFail(x, "%s is not in the primitive table", q)
		}
	}
	v := c.expr(x.X)
	if v.T == nil || v.T.Kind != mgStruct {
		mgFail(x, "field selection %s on %s", exprText(x), v.T)
	}
	for _, f := range v.T.S.Fields {
		if f.Name == x.Sel.Name {
			return mgVal{Txt: f.Proj + " " + v.par(), T: f.T}
		}
	}
	mgFail(x, "struct %s has no field %s", v.T, x.Sel.Name)
	return mgVal{}
}

func (c *mgCtx) unary(x *ast.UnaryExpr) mgVal {
	v := c.expr(x.X)
	switch x.Op {
	case token.ADD:
		return v
	case token.SUB:
		if v.C != nil {
			r := constant.UnaryOp(token.SUB, v.C, 0)
			if v.T != nil && !mgRepresentable(r, v.T) {
				mgFail(x, "constant %s overflows %s", exprText(x), v.T)
			}
			return mgConstVal(r, v.T)
		}
		if v.T.Kind != mgInt {
			mgFail(x, "unary minus on %s", v.T)
		}
		return mgVal{Txt: v.T.wrap() + " (- " + v.par() + ")", T: v.T}
	case token.NOT:
		if v.T == nil || v.T.Kind != mgBool {
			mgFail(x, "! on %s", v.T)
		}
		return mgVal{Txt: "negb " + v.par(), T: v.T}
	}
	mgFail(x, "unary operator %s is outside the fragment", x.Op)
	return mgVal{}
}

var mgArith = map[token.Token]string{token.ADD: "+", token.SUB: "-", token.MUL: "*"}
var mgFun2 = map[token.Token]string{token.QUO: "Z.quot", token.REM: "Z.rem", token.AND: "Z.land", token.OR: "Z.lor",
	token.XOR: "Z.lxor", token.SHL: "Z.shiftl", token.SHR: "Z.shiftr"}

func (c *mgCtx) binary(x *ast.BinaryExpr) mgVal {
	switch x.Op {
	case token.LAND, token.LOR:
		c.inCond++
		a, b := c.expr(x.X), c.expr(x.Y)
		c.inCond--
		if a.T == nil || b.T == nil || a.T.Kind != mgBool || b.T.Kind != mgBool {
			mgFail(x, "%s on non-boolean operands", x.Op)
		}
		op := "&&"
		if x.Op == token.LOR {
			op = "||"
		}
		return mgVal{Txt: a.par() + " " + op + " " + b.par(), T: a.T}
	}
	a, b := c.expr(x.X), c.expr(x.Y)
	if x.Op == token.EQL || x.Op == token.NEQ {
		neg := func(s string) mgVal {
			if x.Op == token.NEQ {
				return mgVal{Txt: "negb (" + s + ")", T: mgBuiltin("bool")}
			}
			return mgVal{Txt: s, T: mgBuiltin("bool")}
		}
		isNil := func(v mgVal) bool { return v.T != nil && v.T.Kind == mgNil }
		if isNil(a) && !isNil(b) {
			a, b = b, a
		}
		if isNil(b) {
			if a.T == nil {
				mgFail(x, "comparison of a constant with nil")
			}
			switch a.T.Kind {
			case mgLocOpt:
				return neg("loc_is_nil " + a.par())
			case mgError: // an error is the boolean "not nil"
				if x.Op == token.NEQ {
					return mgVal{Txt: a.Txt, T: mgBuiltin("bool"), Atom: a.Atom}
				}
				return mgVal{Txt: "negb " + a.par(), T: mgBuiltin("bool")}
			}
			mgFail(x, "comparison of %s with nil is outside the fragment", a.T)
		}
		if a.T != nil && b.T != nil && a.T.Kind == mgStr && b.T.Kind == mgStr {
			return neg("str_eqb " + a.par() + " " + b.par())
		}
	}
	shift := x.Op == token.SHL || x.Op == token.SHR
	if shift {
		// the count is any unsigned value or a non-negative constant; the result has the type of the left operand
		if b.C != nil {
			if mgBig(b.C).Sign() < 0 || mgBig(b.C).BitLen() > 16 {
				mgFail(x, "shift count %s", b.Txt)
			}
		} else if b.T.Kind != mgInt || b.T.Signed {
			mgFail(x, "shift count of type %s (unsigned or constant only)", b.T)
		}
	} else {
		switch {
		case a.T == nil && b.T == nil:
		case a.T == nil:
			a = c.coerce(a, b.T, x.X)
		case b.T == nil:
			b = c.coerce(b, a.T, x.Y)
		default:
			if !a.T.compatible(b.T) {
				mgFail(x, "translator type assignment: operands %s and %s of %s", a.T, b.T, exprText(x))
			}
		}
	}
	t := a.T
	if t == nil && shift && a.C == nil {
		mgFail(x, "shift of an untyped non-constant")
	}
	// comparisons
	switch x.Op {
	case token.EQL, token.NEQ, token.LSS, token.LEQ, token.GTR, token.GEQ:
		if a.C != nil && b.C != nil {
			r := "false"
			if constant.Compare(a.C, x.Op, b.C) {
				r = "true"
			}
			return mgVal{Txt: r, T: mgBuiltin("bool"), Atom: true}
		}
		if t.Kind == mgBool && (x.Op == token.EQL || x.Op == token.NEQ) {
			s := "Bool.eqb " + a.par() + " " + b.par()
			if x.Op == token.NEQ {
				s = "negb (" + s + ")"
			}
			return mgVal{Txt: s, T: mgBuiltin("bool")}
		}
		if t.Kind != mgInt {
			mgFail(x, "comparison of %s values is outside the fragment", t)
		}
		var s string
		switch x.Op {
		case token.EQL:
			s = a.par() + " =? " + b.par()
		case token.NEQ:
			s = "negb (" + a.par() + " =? " + b.par() + ")"
		case token.LSS:
			s = a.par() + " <? " + b.par()
		case token.LEQ:
			s = a.par() + " <=? " + b.par()
		case token.GTR:
			s = b.par() + " <? " + a.par()
		case token.GEQ:
			s = b.par() + " <=? " + a.par()
		}
		return mgVal{Txt: s, T: mgBuiltin("bool")}
	}
	_, isArith := mgArith[x.Op]
	_, isFun := mgFun2[x.Op]
	if !isArith && !isFun {
		mgFail(x, "operator %s is outside the fragment", x.Op)
	}
	if t != nil && t.Kind != mgInt {
		mgFail(x, "operator %s on %s", x.Op, t)
	}
	// constant folding, exactly as the compiler: arbitrary precision, then representability
	if a.C != nil && b.C != nil {
		var r constant.Value
		switch x.Op {
		case token.QUO, token.REM:
			if mgBig(b.C).Sign() == 0 {
				mgFail(x, "constant division by zero")
			}
			op := x.Op
			if op == token.QUO {
				op = token.QUO_ASSIGN // integer division
			}
			r = constant.BinaryOp(a.C, op, b.C)
		case token.SHL, token.SHR:
			n, _ := constant.Uint64Val(b.C)
			r = constant.Shift(a.C, x.Op, uint(n))
		default:
			r = constant.BinaryOp(a.C, x.Op, b.C)
		}
		if t != nil && !mgRepresentable(r, t) {
			mgFail(x, "constant %s overflows %s", exprText(x), t)
		}
		return mgConstVal(r, t)
	}
	// division: by a non-zero constant, or guarded
	if x.Op == token.QUO || x.Op == token.REM {
		if b.C != nil {
			if mgBig(b.C).Sign() == 0 {
				mgFail(x, "division by the constant zero")
			}
		} else {
			c.hoist("if ("+b.par()+" =? 0) then None else", x, "division by a non-constant")
		}
	}
	var body string
	if isArith {
		body = a.par() + " " + mgArith[x.Op] + " " + b.par()
	} else {
		body = mgFun2[x.Op] + " " + a.par() + " " + b.par()
	}
	switch x.Op {
	case token.AND, token.OR, token.XOR, token.SHR:
		return mgVal{Txt: body, T: t} // stays within the type's range
	}
	return mgVal{Txt: t.wrap() + " (" + body + ")", T: t}
}

// convert: the conversion T(e)
func (c *mgCtx) convert(t *mgType, arg ast.Expr, at ast.Node) mgVal {
	v := c.expr(arg)
	switch t.Kind {
	case mgInt:
		if v.C != nil {
			if !mgRepresentable(v.C, t) {
				mgFail(at, "constant %s is not representable in %s", v.Txt, t)
			}
			v.T = t
			return v
		}
		if v.T.Kind != mgInt {
			mgFail(at, "conversion of %s to %s", v.T, t)
		}
		if v.T.compatible(t) {
			v.T = t // same width and signedness: the representation is unchanged
			return v
		}
		return mgVal{Txt: t.wrap() + " " + v.par(), T: t}
	case mgStruct, mgBytes, mgStr, mgSlice:
		if v.T == nil || !v.T.compatible(t) {
			mgFail(at, "conversion of %s to %s", v.T, t)
		}
		v.T = t
		return v
	}
	mgFail(at, "conversion to %s is outside the fragment", t)
	return mgVal{}
}

func (c *mgCtx) args(call *ast.CallExpr, types []*mgType, what string) []string {
	if len(call.Args) != len(types) || call.Ellipsis != token.NoPos {
		mgFail(call, "%s takes %d arguments", what, len(types))
	}
	out := make([]string, len(types))
	for i, a := range call.Args {
		out[i] = c.coerce(c.expr(a), types[i], a).par()
	}
	return out
}

// callee classifies the function part of a call.
type mgCallee struct {
	Conv     *mgType
	Prim     *mgPrim
	PrimQ    string
	Fn       *mgFunc
	Recv     *mgVal
	Panic    bool
	PutU32   bool
	Built    string // len, append, make
	ErrNew   bool   // errors.Errorf / Wrap / New
	Trim     bool   // strings.Trim
	Tuple    string // a multi-value primitive (statement form only)
	stmtCall bool   // the call is the statement c.M(..)
}

func (c *mgCtx) callee(call *ast.CallExpr) mgCallee {
	switch f := call.Fun.(type) {
	case *ast.ParenExpr:
		if t, ok := c.m.tryType(f.X); ok {
			return mgCallee{Conv: t}
		}
	case *ast.ArrayType:
		return mgCallee{Conv: c.m.typeOf(f)}
	case *ast.Ident:
		if _, isLocal := c.env[f.Name]; isLocal {
			mgFail(call, "call of the local %s", f.Name)
		}
		if f.Name == "panic" {
			return mgCallee{Panic: true}
		}
		switch f.Name {
		case "len", "append", "make":
			return mgCallee{Built: f.Name}
		}
		if t := c.m.resolveNamed(f.Name, f); t != nil {
			return mgCallee{Conv: t}
		}
		if fn, ok := c.m.funcs[f.Name]; ok {
			return mgCallee{Fn: fn}
		}
		if t := mgBuiltin(f.Name); t != nil {
			return mgCallee{Conv: t}
		}
		mgFail(call, "call of %s, which is not a whitelisted function, a type or a primitive", f.Name)
	case *ast.SelectorExpr:
		q := ""
		if id, ok := f.X.(*ast.Ident); ok {
			if lib, ok := c.lib(id); ok {
				q = lib + "." + f.Sel.Name
			}
		} else if s2, ok := f.X.(*ast.SelectorExpr); ok {
			if id, ok := s2.X.(*ast.Ident); ok {
				if lib, ok := c.lib(id); ok {
					q = lib + "." + s2.Sel.Name + "." + f.Sel.Name
				}
			}
		}
		if q != "" {
			if t := mgBuiltin(q); t != nil {
				return mgCallee{Conv: t}
			}
			if q == "binary.BigEndian.PutUint32" {
				return mgCallee{PutU32: true}
			}
			if mgErrorCtors[q] {
				return mgCallee{ErrNew: true}
			}
			if q == "strings.Trim" {
				return mgCallee{Trim: true}
			}
			if _, ok := mgTuplePrims[q]; ok {
				return mgCallee{Tuple: q}
			}
			if p, ok := mgFuncPrims[q]; ok {
				return mgCallee{Prim: &p, PrimQ: q}
			}
			mgFail(call, "%s is not in the primitive table", q)
		}
		recv := c.expr(f.X)
		if recv.T == nil {
			mgFail(call, "method call on an untyped constant")
		}
		switch recv.T.Kind {
		case mgTime, mgAddr, mgStr:
			if recv.T.Name == "" {
				mgFail(call, "method %s of a string", f.Sel.Name)
			}
			q := recv.T.Name + "." + f.Sel.Name
			if q == "time.Time.Zone" {
				mgFail(call, "t.Zone() is supported only as `_, off := t.Zone()`")
			}
			p, ok := mgMethodPrims[q]
			if !ok {
				mgFail(call, "%s is not in the primitive table", q)
			}
			return mgCallee{Prim: &p, PrimQ: q, Recv: &recv}
		}
		key := recv.T.Name + "." + f.Sel.Name
		if fn, ok := c.m.funcs[key]; ok {
			return mgCallee{Fn: fn, Recv: &recv}
		}
		mgFail(call, "call of %s, which is not a whitelisted method", key)
	}
	mgFail(call, "call %s is outside the fragment", exprText(call))
	return mgCallee{}
}

// callText translates a call of a primitive or of a whitelisted function; partial = the text is an option
func (c *mgCtx) callText(call *ast.CallExpr, k mgCallee) (v mgVal, partial bool) {
	switch {
	case k.Prim != nil:
		p := k.Prim
		var ts []*mgType
		for _, a := range p.Args {
			ts = append(ts, mgBuiltin(a))
		}
		args := c.args(call, ts, k.PrimQ)
		parts := []string{p.Coq}
		if p.Loc {
			c.fn.UsesLoc = true
			parts = append(parts, "loc")
		}
		if k.Recv != nil && !p.ArgsFirst {
			parts = append(parts, k.Recv.par())
		}
		parts = append(parts, args...)
		if k.Recv != nil && p.ArgsFirst {
			parts = append(parts, k.Recv.par())
		}
		return mgVal{Txt: strings.Join(parts, " "), T: mgBuiltin(p.Res)}, p.Partial
	case k.Fn != nil:
		fn := k.Fn
		c.m.translate(fn, call)
		if fn.Err != "" {
			mgFail(call, "callee %s was not translated", fn.Key)
		}
		if fn.PtrRecv && !k.stmtCall {
			mgFail(call, "call of the pointer-receiver method %s in expression position (allowed as the statement c.%s(..))", fn.Key, fn.Decl.Name.Name)
		}
		parts := []string{fn.CoqName}
		if fn.UsesLoc {
			c.fn.UsesLoc = true
			parts = append(parts, "loc")
		}
		if fn.UsesTZ {
			c.fn.UsesTZ = true
			parts = append(parts, "tzdb")
		}
		ps := fn.Params
		if k.Recv != nil {
			parts = append(parts, c.coerce(*k.Recv, ps[0].T, call).par())
			ps = ps[1:]
		}
		var ts []*mgType
		for _, p := range ps {
			ts = append(ts, p.T)
		}
		parts = append(parts, c.args(call, ts, fn.Key)...)
		if k.Recv == nil && fn.Decl.Recv != nil {
			mgFail(call, "method %s called without a receiver", fn.Key)
		}
		return mgVal{Txt: strings.Join(parts, " "), T: fn.Res}, fn.Partial
	}
	mgFail(call, "call %s is outside the fragment", exprText(call))
	return mgVal{}, false
}

func (c *mgCtx) call(x *ast.CallExpr) mgVal {
	k := c.callee(x)
	switch {
	case k.Conv != nil:
		if len(x.Args) != 1 {
			mgFail(x, "conversion with %d arguments", len(x.Args))
		}
		return c.convert(k.Conv, x.Args[0], x)
	case k.Panic:
		mgFail(x, "panic in expression position")
	case k.PutU32:
		mgFail(x, "binary.BigEndian.PutUint32 in expression position")
	case k.Tuple != "":
		mgFail(x, "%s in expression position (allowed as `a, b := %s(..)`)", k.Tuple, k.Tuple)
	case k.ErrNew:
		// the arguments are only formatted into the message, which is not modelled: literals and identifiers only
		for _, a := range x.Args {
			switch y := a.(type) {
			case *ast.BasicLit:
			case *ast.Ident:
				// a local, a parameter, or a package-level name: reading an identifier neither panics nor has an effect
				_ = y
			default:
				mgFail(a, "argument %s of %s is not a literal or a variable", exprText(a), exprText(x.Fun))
			}
		}
		return mgVal{Txt: "err_new", T: mgBuiltin("error"), Atom: true}
	case k.Trim:
		if len(x.Args) != 2 {
			mgFail(x, "strings.Trim takes 2 arguments")
		}
		sv := c.coerce(c.expr(x.Args[0]), mgBuiltin("string"), x.Args[0])
		lit, ok := x.Args[1].(*ast.BasicLit)
		if !ok || lit.Kind != token.STRING {
			mgFail(x, "strings.Trim: the cutset must be a string literal (model: TypeStr.trim_set, byte-wise)")
		}
		return mgVal{Txt: "str_Trim " + mgBytesLit(c.asciiLit(lit)) + " " + sv.par(), T: mgBuiltin("string")}
	case k.Built != "":
		return c.builtin(x, k.Built)
	}
	v, partial := c.callText(x, k)
	if partial {
		return c.bindPartial(v, x, "call of "+exprText(x.Fun)+", which can panic,")
	}
	return v
}

// strLit: the bytes of a string literal
func (c *mgCtx) strLit(x *ast.BasicLit) []byte {
	s, err := strconv.Unquote(x.Value)
	if err != nil {
		mgFail(x, "string literal %s", x.Value)
	}
	return []byte(s)
}

func (c *mgCtx) asciiLit(x *ast.BasicLit) []byte {
	b := c.strLit(x)
	for _, ch := range b {
		if ch >= 0x80 {
			mgFail(x, "string literal %s is not ASCII (the string primitives are modelled byte-wise)", x.Value)
		}
	}
	return b
}

func mgBytesLit(b []byte) string {
	if len(b) == 0 {
		return "[]"
	}
	parts := make([]string, len(b))
	for i, ch := range b {
		parts[i] = fmt.Sprintf("%d%%N", ch)
	}
	return "[" + strings.Join(parts, "; ") + "]"
}

// len(s), append(s, e), append(s, t...), make([]T, len(s))
func (c *mgCtx) builtin(x *ast.CallExpr, name string) mgVal {
	switch name {
	case "len":
		if len(x.Args) != 1 {
			mgFail(x, "len takes 1 argument")
		}
		s := c.expr(x.Args[0])
		if s.T == nil || s.T.Kind != mgSlice {
			mgFail(x, "len of %s (slices only)", s.T)
		}
		return mgVal{Txt: "slice_len " + s.par(), T: mgBuiltin("int")}
	case "append":
		if len(x.Args) != 2 {
			mgFail(x, "append with %d arguments (append(s, e) and append(s, t...) only)", len(x.Args))
		}
		s := c.expr(x.Args[0])
		if s.T == nil || s.T.Kind != mgSlice {
			mgFail(x, "append to %s", s.T)
		}
		if x.Ellipsis != token.NoPos {
			t := c.coerce(c.expr(x.Args[1]), s.T, x.Args[1])
			return mgVal{Txt: s.par() + " ++ " + t.par(), T: s.T}
		}
		e := c.coerce(c.expr(x.Args[1]), s.T.Elem, x.Args[1])
		return mgVal{Txt: s.par() + " ++ [" + e.Txt + "]", T: s.T}
	case "make":
		if len(x.Args) != 2 {
			mgFail(x, "make with %d arguments (make([]T, len(s)) only)", len(x.Args))
		}
		t := c.m.typeOf(x.Args[0])
		if t.Kind != mgSlice || t.Elem.Kind != mgInt {
			mgFail(x, "make of %s (slices of integers only)", t)
		}
		n, ok := x.Args[1].(*ast.CallExpr)
		var id *ast.Ident
		if ok {
			id, _ = n.Fun.(*ast.Ident)
		}
		if id == nil || id.Name != "len" {
			mgFail(x, "make([]T, n): n must be len(s) (a negative length panics; not modelled)")
		}
		nv := c.expr(x.Args[1])
		return mgVal{Txt: "slice_make " + nv.par(), T: t}
	}
	mgFail(x, "builtin %s", name)
	return mgVal{}
}

func (c *mgCtx) zero(t *mgType, at ast.Node) string {
	switch t.Kind {
	case mgInt:
		return "0"
	case mgBool:
		return "false"
	case mgLocOpt:
		return "None"
	case mgError:
		return "err_nil"
	case mgSlice, mgStr:
		return "[]"
	case mgBytes:
		z := make([]string, t.N)
		for i := range z {
			z[i] = "0"
		}
		return "[" + strings.Join(z, "; ") + "]"
	case mgStruct:
		c.m.useRecord(t)
		parts := []string{t.S.Ctor}
		for _, f := range t.S.Fields {
			parts = append(parts, c.zero(f.T, at))
		}
		return "(" + strings.Join(parts, " ") + ")"
	}
	mgFail(at, "zero value of %s is outside the fragment", t)
	return ""
}

func (c *mgCtx) composite(x *ast.CompositeLit) mgVal {
	if x.Type == nil {
		mgFail(x, "composite literal without a type")
	}
	t := c.m.typeOf(x.Type)
	if t.Kind != mgStruct {
		mgFail(x, "composite literal of %s", t)
	}
	c.m.useRecord(t)
	vals := map[string]string{}
	for _, el := range x.Elts {
		kv, ok := el.(*ast.KeyValueExpr)
		if !ok {
			mgFail(el, "positional struct literal")
		}
		key, ok := kv.Key.(*ast.Ident)
		if !ok {
			mgFail(el, "struct literal key %s", exprText(kv.Key))
		}
		var ft *mgType
		for _, f := range t.S.Fields {
			if f.Name == key.Name {
				ft = f.T
			}
		}
		if ft == nil {
			mgFail(el, "struct %s has no field %s", t, key.Name)
		}
		if _, dup := vals[key.Name]; dup {
			mgFail(el, "duplicate field %s", key.Name)
		}
		vals[key.Name] = c.coerce(c.expr(kv.Value), ft, kv.Value).par()
	}
	parts := []string{t.S.Ctor}
	for _, f := range t.S.Fields {
		if v, ok := vals[f.Name]; ok {
			parts = append(parts, v)
		} else {
			parts = append(parts, c.zero(f.T, x))
		}
	}
	return mgVal{Txt: strings.Join(parts, " "), T: t}
}
