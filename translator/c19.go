package main

// C19: tables read by coq/model/TypeStr.v (type inference and type compatibility).
//
//	coq/gen/TypeNames.v
//	  coltype_consts       the ColumnType string constants of proto/column.go
//	  type_methods         every `func (ColX) Type() ColumnType { return <expr> }` with a single return
//	  auto_switch          the `switch t { case X: c.Data = <expr> }` arms of ColAuto.Infer
//	  interval_scale_name, interval_scale_lower_name, interval_scale_index   the enumer tables behind IntervalScale.String()
//	  precision_max        proto.PrecisionMax

import (
	"bytes"
	"fmt"
	"go/ast"
	"go/token"
	"path/filepath"
	"sort"
	"strconv"
	"strings"
)

func init() {
	registerGen([]string{"TypeNames.v"}, c19TypeNames)
}

func c19TypeNames(repo, out string) {
	var b bytes.Buffer
	header(&b, "proto/column.go constants, Type() methods, ColAuto.Infer direct cases, interval names (C19)")

	// ---- ColumnType constants
	f := parseFile(filepath.Join(repo, "proto", "column.go"))
	var consts []string
	for _, d := range f.Decls {
		gd, ok := d.(*ast.GenDecl)
		if !ok || gd.Tok != token.CONST {
			continue
		}
		for _, s := range gd.Specs {
			vs := s.(*ast.ValueSpec)
			id, ok := vs.Type.(*ast.Ident)
			if !ok || id.Name != "ColumnType" || len(vs.Names) != 1 || len(vs.Values) != 1 {
				continue
			}
			lit, ok := vs.Values[0].(*ast.BasicLit)
			if !ok || lit.Kind != token.STRING {
				continue
			}
			v, err := strconv.Unquote(lit.Value)
			if err != nil {
				die("column.go: constant %s: %v", vs.Names[0].Name, err)
			}
			consts = append(consts, fmt.Sprintf("  (%s, %s)", coqStr(vs.Names[0].Name), coqStr(v)))
		}
	}
	if len(consts) < 35 {
		die("column.go: only %d ColumnType constants found", len(consts))
	}
	b.WriteString("Definition coltype_consts : list (string * string) := [\n" + strings.Join(consts, ";\n") + "\n].\n\n")

	// ---- Type() methods with a single return statement
	files, _ := filepath.Glob(filepath.Join(repo, "proto", "col_*.go"))
	sort.Strings(files)
	tm := map[string]string{}
	for _, p := range files {
		if strings.HasSuffix(p, "_test.go") {
			continue
		}
		pf := parseFile(p)
		for _, d := range pf.Decls {
			fd, ok := d.(*ast.FuncDecl)
			if !ok || fd.Recv == nil || fd.Name.Name != "Type" || fd.Body == nil {
				continue
			}
			t := recvType(fd)
			if !strings.HasPrefix(t, "Col") || fd.Type.Params.NumFields() != 0 || fd.Type.Results.NumFields() != 1 {
				continue
			}
			if len(fd.Body.List) != 1 {
				continue
			}
			ret, ok := fd.Body.List[0].(*ast.ReturnStmt)
			if !ok || len(ret.Results) != 1 {
				continue
			}
			tm[t] = exprText(ret.Results[0])
		}
	}
	var ts []string
	for t := range tm {
		ts = append(ts, t)
	}
	sort.Strings(ts)
	if len(ts) < 40 {
		die("only %d single-return Type() methods found", len(ts))
	}
	b.WriteString("(* (column struct, the expression its Type() method returns) *)\n")
	b.WriteString("Definition type_methods : list (string * string) := [\n")
	for i, t := range ts {
		sep := ";"
		if i == len(ts)-1 {
			sep = ""
		}
		fmt.Fprintf(&b, "  (%s, %s)%s\n", coqStr(t), coqStr(tm[t]), sep)
	}
	b.WriteString("].\n\n")

	// ---- ColAuto.Infer: switch t { case X: c.Data = expr }
	af := parseFile(filepath.Join(repo, "proto", "col_auto.go"))
	var infer *ast.FuncDecl
	for _, d := range af.Decls {
		if fd, ok := d.(*ast.FuncDecl); ok && fd.Name.Name == "Infer" && recvType(fd) == "ColAuto" {
			infer = fd
		}
	}
	if infer == nil {
		die("ColAuto.Infer not found")
	}
	tname := paramOfType(infer, "ColumnType")
	var sw *ast.SwitchStmt
	for _, s := range infer.Body.List {
		if x, ok := s.(*ast.SwitchStmt); ok {
			if id, ok := x.Tag.(*ast.Ident); ok && id.Name == tname {
				sw = x
			}
		}
	}
	if sw == nil {
		die("ColAuto.Infer: `switch %s` not found", tname)
	}
	var arms []string
	hasDefault := false
	for _, s := range sw.Body.List {
		cc := s.(*ast.CaseClause)
		if cc.List == nil {
			hasDefault = true
			continue
		}
		if len(cc.Body) != 1 {
			die("ColAuto.Infer: unexpected shape of a direct case")
		}
		as, ok := cc.Body[0].(*ast.AssignStmt)
		if !ok || len(as.Lhs) != 1 || len(as.Rhs) != 1 || exprText(as.Lhs[0]) != "c.Data" {
			die("ColAuto.Infer: direct case %s does not assign c.Data", exprText(cc.List[0]))
		}
		// `case A, B:` is an arm per label (Go rejects duplicate constant labels, so the order of the arms is immaterial:
		// the model looks a type up in this list)
		for _, lab := range cc.List {
			arms = append(arms, fmt.Sprintf("  (%s, %s)", coqStr(exprText(lab)), coqStr(exprText(as.Rhs[0]))))
		}
	}
	if !hasDefault || len(arms) < 5 {
		die("ColAuto.Infer: direct switch has %d arms, default=%v", len(arms), hasDefault)
	}
	b.WriteString("Definition auto_switch : list (string * string) := [\n" + strings.Join(arms, ";\n") + "\n].\n\n")

	// ---- interval names (enumer output)
	ef := parseFile(filepath.Join(repo, "proto", "interval_enum.go"))
	name, lower, idx := "", "", []string(nil)
	for _, d := range ef.Decls {
		gd, ok := d.(*ast.GenDecl)
		if !ok {
			continue
		}
		for _, s := range gd.Specs {
			vs, ok := s.(*ast.ValueSpec)
			if !ok || len(vs.Names) != 1 || len(vs.Values) != 1 {
				continue
			}
			switch vs.Names[0].Name {
			case "_IntervalScaleName":
				if lit, ok := vs.Values[0].(*ast.BasicLit); ok {
					name, _ = strconv.Unquote(lit.Value)
				}
			case "_IntervalScaleLowerName":
				if lit, ok := vs.Values[0].(*ast.BasicLit); ok {
					lower, _ = strconv.Unquote(lit.Value)
				}
			case "_IntervalScaleIndex":
				if cl, ok := vs.Values[0].(*ast.CompositeLit); ok {
					for _, e := range cl.Elts {
						v, ok := evalConst(e, constEnv{}, 0)
						if !ok {
							die("interval_enum.go: index element")
						}
						idx = append(idx, strconv.FormatInt(v, 10))
					}
				}
			}
		}
	}
	if name == "" || lower == "" || len(idx) < 2 {
		die("interval_enum.go: name table not found")
	}
	fmt.Fprintf(&b, "Definition interval_scale_name : string := %s.\n", coqStr(name))
	fmt.Fprintf(&b, "Definition interval_scale_lower_name : string := %s.\n", coqStr(lower))
	fmt.Fprintf(&b, "Definition interval_scale_index : list N := [%s].\n\n", strings.Join(idx, "; "))

	// ---- PrecisionMax
	env := constEnv{}
	cs := constsOf(filepath.Join(repo, "proto", "datetime64.go"), env)
	need(cs, "PrecisionMax")
	fmt.Fprintf(&b, "Definition precision_max : N := %d.\n", env["PrecisionMax"])

	writeFile(out, "TypeNames.v", &b)
}
