package main

// C20: the IntervalScale enumeration of proto/col_interval.go -> coq/gen/ScalConsts.v
// (the dispatch of Interval.Add in coq/model/Scalars.v is written against these names).

import (
	"bytes"
	"fmt"
	"path/filepath"
)

func init() {
	registerGen([]string{"ScalConsts.v"}, func(repo, out string) {
		var b bytes.Buffer
		header(&b, "interval units (proto/col_interval.go)")
		cs := constsOf(filepath.Join(repo, "proto/col_interval.go"), constEnv{})
		need(cs, "IntervalSecond", "IntervalMinute", "IntervalHour", "IntervalDay", "IntervalWeek",
			"IntervalMonth", "IntervalQuarter", "IntervalYear")
		for _, c := range cs {
			fmt.Fprintf(&b, "Definition %s : Z := %s%%Z.\n", coqName(c.Name), coqZ(c.Val))
		}
		b.WriteString("Definition interval_scales : list Z :=\n  [")
		for i, c := range cs {
			if i > 0 {
				b.WriteString("; ")
			}
			b.WriteString(coqName(c.Name))
		}
		b.WriteString("]%Z.\n")
		writeFile(out, "ScalConsts.v", &b)
	})
}
