module vtranslator

go 1.23
