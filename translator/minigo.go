package main

// minigo.go (+ minigo_expr.go, minigo_stmt.go) — C20: a translator from a small, explicitly delimited
// fragment of Go ("MiniGo") to Gallina.  On every run the whitelisted scalar conversion functions of
// /repo/proto are re-read (go/parser + go/ast + go/constant; no type checker) and written to
// coq/gen/ScalFuns.v as one `Definition go_<Name>` each; coq/proofs/ScalFunsProofs.v proves each of
// them equal to the hand model of coq/model/Scalars.v, so the C20 theorems are re-checked against what
// the code says now.
//
// THE FRAGMENT (anything else inside a whitelisted function is a translation failure naming the construct)
//
//	decl   ::= func [ (x T) ] Name ( x T, ... ) T { stmt* }          value receivers, one result
//	T      ::= int int8..int64 uint uint8..uint64 byte bool | named integer type of the whitelisted files
//	         | time.Time | time.Duration | time.Month | netip.Addr | [N]byte (and names for it)
//	         | struct of such fields declared in the whitelisted files
//	stmt   ::= x := e | var x T [= e] | x = e | x.F = e | x op= e | x++ | x--
//	         | _, y := t.Zone()
//	         | if c { stmt* } [else { stmt* }]        either every branch returns/panics, or none contains one
//	         | switch e { case k,..: stmt* return/panic ... [default: ...] }
//	         | for i := C; i > x; i-- { stmt* }       C constant of an unsigned type, x loop-invariant, same type
//	         | return e | panic(...) | binary.BigEndian.PutUint32(b[:], e)
//	e      ::= literal | constant | x | x.F | (e) | -e | !e | e op e   (+ - * / % << >> & | ^ == != < <= > >= && ||)
//	         | T(e) | S{F: e, ...} | b[:] | f(e,..) | e.m(e,..) for whitelisted f, m and the primitives below
//
// SEMANTICS WRITTEN OUT, not assumed
//   - every + - * / % << and unary minus is wrapped to the width and signedness of its Go type
//     (i8 u8 i16 u16 i32 u32 i64 u64; int/uint are 64 bit); & | ^ >> and comparisons need no wrap;
//   - / and % are Z.quot and Z.rem (truncation toward zero);
//   - a conversion T(e) wraps to T, except between types of the same width and signedness (where Go's
//     conversion does not change the representation) and on constants (checked representable here);
//   - constant expressions are evaluated here with go/constant exactly as the compiler does and must be
//     representable in their type; untyped constants take the type of the other operand;
//   - division by a non-zero constant is total; division by anything else is Go's run-time panic: the
//     function becomes partial (result `option`), `if (divisor =? 0) then None else` is written before
//     the statement (not allowed under && / || or in a non-returning branch, where hoisting would be wrong);
//   - panic(...) and a panicking primitive (Addr.As4) also make the function partial: None = the panic;
//   - the counting loop is a Fixpoint on fuel = Z.to_nat C: i runs C, C-1, .. and `i > x` is false at
//     i = 0 for x of an unsigned type, so C iterations suffice (proved again in ScalFunsProofs.v:
//     more fuel does not change the result);
//   - time.Local is the extra first parameter [loc] of every function that (transitively) calls time.Unix.
//
// THE COLUMN EXTENSION (C20y): the temporal columns' methods.  Added, and nothing more:
//
//	decl   ::= func (c *C) Name ( x T, ... ) [error | *C] { stmt* }   pointer receiver, C a named slice or struct
//	             translated to a function from the receiver's value (first parameter) to its NEW value:
//	             no result -> C ; result error -> (C * bool) ; result *C with `return c` only -> C
//	T      ::= .. | []T and names for it (a Gallina list) | string, ColumnType (bytes) | error (bool, true = not nil)
//	         | *time.Location as a field/parameter/variable/result (option Z, None = nil)
//	stmt   ::= .. | *c = e | c.F = e (c the receiver) | s[i] = e | c.M(e,..) for a pointer-receiver method M of c
//	         | a, b, c := strings.Cut(s, "x") | n, err := strconv.ParseUint(s, 10, 8) | l, err :=/= time.LoadLocation(s)
//	         | for [i|_], v := range s { stmt* }     s a slice variable not assigned in the body; no return inside
//	         | if init; c { .. }                      init an assignment that declares no name already in scope
//	         | if c { .. return .. }                  a branch that may return but need not: the rest of the block is
//	                                                  translated once after the branch and once for the else path
//	         | return | return nil | return errors.Errorf/Wrap/New(..) | return c
//	e      ::= .. | "literal" | nil | *c | s[i] | len(s) | append(s, e) | append(s, t...) | make([]T, len(s))
//	         | string(e) | e == "" | e != nil | t.Elem() | strings.Trim(e, "cutset")
//	         | a call that can panic in ANY position of a statement in result position (hoisted before the statement)
//
//   - a pointer receiver is the value it points to; `*c = e` / `c.F = e` re-bind it, and the function returns the
//     last binding (aliasing does not arise: the receiver is the only pointer of the fragment);
//   - s[i] is Go's checked index: `if slice_oob s i then None else` is written before the statement and the element
//     is slice_get s i (both defined through nth_error in model/ScalCols.v); s[i] = e likewise, then slice_set;
//   - append(s, e) = s ++ [e], append(s, t...) = s ++ t, len(s) = Z.of_nat (length s), make([]T, len(s)) = zeros;
//   - a range loop is a structural Fixpoint over the list (index counted from 0), its body in result position with
//     the recursive call as continuation; it returns the variables the body assigns (an option of them in a
//     function that can panic);
//   - a partial call (whitelisted function that can panic, t.In(l) for a nil-able l) in expression position is bound
//     before its statement by `TRY tmp <- call IN` (None = the panic); not under && / ||;
//   - the string functions are NOT translated: they are primitives mapped to model/TypeStr.v (table below), checked
//     here to be called with the literal arguments the model is written for (one-byte separator, ASCII cutset,
//     base 10, 8 bits); time.LoadLocation is the extra parameter [tzdb] (name -> fixed zone), like [loc];
//   - errors are booleans: nil = err_nil, every errors.Errorf / Wrap / New = err_new (never nil in go-faster/errors;
//     their arguments must be literals or variables, they are only formatted).

import (
	"bytes"
	"fmt"
	"go/ast"
	"go/constant"
	"go/token"
	"math/big"
	"os"
	"path/filepath"
	"regexp"
	"sort"
	"strings"
)

// ---- the whitelist ----------------------------------------------------------------------------------

var mgFiles = []string{
	"proto/date.go", "proto/date32.go", "proto/datetime.go", "proto/datetime64.go",
	"proto/int128.go", "proto/int256.go", "proto/ipv4.go", "proto/ipv6.go",
	"proto/decimal.go", "proto/col_interval.go",
	"proto/col_date.go", "proto/col_date_gen.go", "proto/col_date32.go", "proto/col_date32_gen.go",
	"proto/col_datetime.go", "proto/col_datetime64.go",
}

// file -> functions ("Recv.Name" or "Name"); every one must exist
var mgWhitelist = map[string][]string{
	"proto/date.go":         {"Date.Unix", "Date.Time", "ToDate", "NewDate"},
	"proto/date32.go":       {"Date32.Unix", "Date32.Time", "ToDate32", "NewDate32"},
	"proto/datetime.go":     {"ToDateTime", "DateTime.Time"},
	"proto/datetime64.go":   {"Precision.Duration", "Precision.Valid", "Precision.Scale", "ToDateTime64", "DateTime64.Time"},
	"proto/int128.go":       {"Int128.Int", "Int128.UInt64", "Int128FromInt", "Int128FromUInt64", "UInt128.UInt64", "UInt128.Int", "UInt128FromInt", "UInt128FromUInt64"},
	"proto/int256.go":       {"Int256FromInt", "UInt256FromInt", "UInt256FromUInt64"},
	"proto/ipv4.go":         {"IPv4.ToIP", "ToIPv4"},
	"proto/ipv6.go":         {"IPv6.ToIP", "ToIPv6"},
	"proto/col_interval.go": {"Interval.Add"},
	// C20y: the temporal columns as objects
	"proto/col_date.go":       {"ColDate.Append", "ColDate.AppendArr", "ColDate.Row"},
	"proto/col_date32.go":     {"ColDate32.Append", "ColDate32.AppendArr", "ColDate32.Row"},
	"proto/col_datetime.go":   {"ColDateTime.Infer", "ColDateTime.loc", "ColDateTime.Row", "ColDateTime.AppendRaw", "ColDateTime.Append", "ColDateTime.AppendArr"},
	"proto/col_datetime64.go": {"ColDateTime64.WithPrecision", "ColDateTime64.WithLocation", "ColDateTime64.Infer", "ColDateTime64.loc", "ColDateTime64.Row", "ColDateTime64.AppendRaw", "ColDateTime64.Append", "ColDateTime64.AppendArr"},
	// Feature.Version / Feature.In (proto/feature.go) translate as they are (add the file and the two names here),
	// but they are not scalar conversions: an edit there belongs to C13/C17 and must not break the C20 tie.
}

// constants of these files exist by name in gen/Consts.v / gen/ScalConsts.v (written by main.go / scal.go
// from the same source on the same run); constants of other files are written as literals
var mgNamedConstFiles = map[string]bool{"proto/date.go": true, "proto/datetime64.go": true, "proto/col_interval.go": true}

// ---- the primitive tables: Go library -> coq/model/Scalars.v ------------------------------------------

type mgPrim struct {
	Coq       string   // Scalars.v definition
	Args      []string // Go parameter types
	Res       string   // Go result type
	Loc       bool     // takes [loc] (time.Local) as first argument
	Partial   bool     // may panic: Scalars.v definition returns option
	ArgsFirst bool     // Coq argument order: arguments, then receiver
}

// methods of library types
var mgMethodPrims = map[string]mgPrim{
	"time.Time.IsZero":     {Coq: "t_IsZero", Res: "bool"},
	"time.Time.Unix":       {Coq: "t_Unix", Res: "int64"},
	"time.Time.UnixNano":   {Coq: "t_UnixNano", Res: "int64"},
	"time.Time.Nanosecond": {Coq: "t_Nanosecond", Res: "int"},
	"time.Time.UTC":        {Coq: "t_UTC", Res: "time.Time"},
	"time.Time.In":         {Coq: "t_In", Args: []string{"*time.Location"}, Res: "time.Time", ArgsFirst: true},
	"time.Time.Add":        {Coq: "t_Add", Args: []string{"time.Duration"}, Res: "time.Time"},
	"time.Time.AddDate":    {Coq: "t_AddDate", Args: []string{"int", "int", "int"}, Res: "time.Time"},
	"netip.Addr.As16":      {Coq: "addr_As16", Res: "[16]byte"},
	"netip.Addr.As4":       {Coq: "addr_As4", Res: "[4]byte", Partial: true},
	// `_, off := t.Zone()` -> t_ZoneOffset t : int   (statement form only, see minigo_stmt.go)
	// t.In(l) for a nil-able l (a field / variable / result of type *time.Location): `TRY tmp <- l IN` first (nil panics)
	"ColumnType.Elem": {Coq: "ct_Elem", Res: "ColumnType"}, // model/ScalCols.v: TypeStr.elem_r
}

// string and error primitives with checked literal arguments (model/ScalCols.v -> model/TypeStr.v)
//
//	strings.Trim(s, "cutset")            -> str_Trim [bytes of cutset] s         ASCII cutset literal
//	a, b, found := strings.Cut(s, "x")   -> '(a, b, found) := str_Cut x s         one-byte separator literal
//	n, err := strconv.ParseUint(s, 10, 8)-> '(n, err) := str_ParseUint8 s         n : uint64; literally base 10, 8 bits
//	l, err := time.LoadLocation(s)       -> '(l, err) := load_location tzdb s     l : *time.Location (nil with an error)
//	errors.Errorf(..) errors.Wrap(..) errors.New(..) -> err_new ; nil -> err_nil
//	s == t on strings                    -> str_eqb s t (Bytes.bytes_eqb)
//	string(e)                            -> e
type mgTuplePrim struct {
	Coq  string
	Res  []string
	Lits []string // required literal values of the arguments after the first ("" = checked by kind)
	TZ   bool
}

var mgTuplePrims = map[string]mgTuplePrim{
	"strings.Cut":       {Coq: "str_Cut", Res: []string{"string", "string", "bool"}},
	"strconv.ParseUint": {Coq: "str_ParseUint8", Res: []string{"uint64", "error"}, Lits: []string{"10", "8"}},
	"time.LoadLocation": {Coq: "load_location", Res: []string{"*time.Location?", "error"}, TZ: true},
}

var mgErrorCtors = map[string]bool{"errors.Errorf": true, "errors.Wrap": true, "errors.New": true, "errors.Wrapf": true}

// package-level functions
var mgFuncPrims = map[string]mgPrim{
	"time.Unix":               {Coq: "time_Unix", Args: []string{"int64", "int64"}, Res: "time.Time", Loc: true},
	"time.Date":               {Coq: "go_Date", Args: []string{"int", "time.Month", "int", "int", "int", "int", "int", "*time.Location"}, Res: "time.Time"},
	"netip.AddrFrom4":         {Coq: "Addr4", Args: []string{"[4]byte"}, Res: "netip.Addr"},
	"netip.AddrFrom16":        {Coq: "Addr6", Args: []string{"[16]byte"}, Res: "netip.Addr"},
	"binary.BigEndian.Uint32": {Coq: "be32", Args: []string{"[4]byte"}, Res: "uint32"},
	// statement `binary.BigEndian.PutUint32(b[:], e)` -> b := put_be32 e   (b a [4]byte variable)
}

// library constants: Coq text, exact value, Go type ("" = untyped)
var mgConstPrims = map[string][3]string{
	"time.Nanosecond":  {"1", "1", "time.Duration"},
	"time.Microsecond": {"1000", "1000", "time.Duration"},
	"time.Millisecond": {"1000000", "1000000", "time.Duration"},
	"time.Second":      {"dur_Second", "1000000000", "time.Duration"},
	"time.Minute":      {"dur_Minute", "60000000000", "time.Duration"},
	"time.Hour":        {"dur_Hour", "3600000000000", "time.Duration"},
	"math.MaxUint64":   {"maxu64", "18446744073709551615", ""},
	"math.MaxInt":      {"maxi64", "9223372036854775807", ""},
	"math.MaxInt64":    {"maxi64", "9223372036854775807", ""},
	// time.UTC -> 0 and time.Local -> loc are *time.Location values (an offset in the model)
}

// struct types that Scalars.v already has as records: constructor, projections in declaration order
var mgStructMap = map[string]struct {
	Coq, Ctor string
	Fields    [][2]string
}{
	"Int128":  {"int128", "mk128", [][2]string{{"Low", "lo128"}, {"High", "hi128"}}},
	"UInt128": {"int128", "mk128", [][2]string{{"Low", "lo128"}, {"High", "hi128"}}},
	"Int256":  {"int256", "mk256", [][2]string{{"Low", "lo256"}, {"High", "hi256"}}},
	"UInt256": {"int256", "mk256", [][2]string{{"Low", "lo256"}, {"High", "hi256"}}},
	// model/ScalCols.v
	"ColDateTime":   {"col_dt", "mkColDT", [][2]string{{"Data", "dt_Data"}, {"Location", "dt_Location"}}},
	"ColDateTime64": {"col_dt64", "mkColDT64", [][2]string{{"Data", "dt64_Data"}, {"Location", "dt64_Location"}, {"Precision", "dt64_Precision"}, {"PrecisionSet", "dt64_PrecisionSet"}}},
}

var mgImports = map[string]string{"time": "time", "math": "math", "net/netip": "netip", "encoding/binary": "binary",
	"strings": "strings", "strconv": "strconv", "github.com/go-faster/errors": "errors"}

// ---- types ------------------------------------------------------------------------------------------

type mgKind int

const (
	mgInt mgKind = iota
	mgBool
	mgTime
	mgLoc
	mgAddr
	mgBytes
	mgStruct
	mgSlice  // []T: a Gallina list
	mgStr    // string / ColumnType: bytes
	mgError  // error: bool, true = not nil
	mgLocOpt // a *time.Location field / parameter / variable / result: option Z, None = nil
	mgNil    // the untyped nil
)

type mgField struct {
	Name, Proj string
	T          *mgType
}
type mgStructInfo struct {
	Coq, Ctor string
	Fields    []mgField
	Generated bool
	GoName    string
}
type mgType struct {
	Kind   mgKind
	Name   string // named type (method lookup); "" for an unnamed builtin
	Bits   int
	Signed bool
	N      int
	S      *mgStructInfo
	Elem   *mgType // mgSlice
}

func (t *mgType) coq() string {
	switch t.Kind {
	case mgInt, mgLoc:
		return "Z"
	case mgBool:
		return "bool"
	case mgTime:
		return "gotime"
	case mgAddr:
		return "addr"
	case mgBytes:
		return "(list Z)"
	case mgStruct:
		return t.S.Coq
	case mgSlice:
		return "(list " + t.Elem.coq() + ")"
	case mgStr:
		return "bytes"
	case mgError:
		return "bool"
	case mgLocOpt:
		return "(option Z)"
	}
	return "?"
}
func (t *mgType) wrap() string {
	if t.Signed {
		return fmt.Sprintf("i%d", t.Bits)
	}
	return fmt.Sprintf("u%d", t.Bits)
}
func (t *mgType) String() string {
	if t == nil {
		return "untyped constant"
	}
	if t.Name != "" {
		return t.Name
	}
	switch t.Kind {
	case mgInt:
		return t.wrap()
	case mgBytes:
		return fmt.Sprintf("[%d]byte", t.N)
	case mgSlice:
		return "[]" + t.Elem.String()
	case mgStr:
		return "string"
	case mgError:
		return "error"
	case mgLocOpt:
		return "*time.Location (nil-able)"
	case mgNil:
		return "nil"
	}
	return t.coq()
}
func (t *mgType) compatible(u *mgType) bool {
	if t.Kind != u.Kind {
		return false
	}
	switch t.Kind {
	case mgInt:
		return t.Bits == u.Bits && t.Signed == u.Signed
	case mgBytes:
		return t.N == u.N
	case mgStruct:
		return t.S.Coq == u.S.Coq
	case mgSlice:
		return t.Elem.compatible(u.Elem)
	}
	return true
}
func (t *mgType) bounds() (lo, hi *big.Int) {
	one := big.NewInt(1)
	if t.Signed {
		hi = new(big.Int).Lsh(one, uint(t.Bits-1))
		lo = new(big.Int).Neg(hi)
		hi.Sub(hi, one)
		return
	}
	hi = new(big.Int).Lsh(one, uint(t.Bits))
	hi.Sub(hi, one)
	return big.NewInt(0), hi
}

func mgBuiltin(name string) *mgType {
	i := func(b int, s bool) *mgType { return &mgType{Kind: mgInt, Bits: b, Signed: s} }
	switch name {
	case "int", "int64":
		return i(64, true)
	case "int32":
		return i(32, true)
	case "int16":
		return i(16, true)
	case "int8":
		return i(8, true)
	case "uint", "uint64":
		return i(64, false)
	case "uint32":
		return i(32, false)
	case "uint16":
		return i(16, false)
	case "uint8", "byte":
		return i(8, false)
	case "bool":
		return &mgType{Kind: mgBool}
	case "time.Time":
		return &mgType{Kind: mgTime, Name: "time.Time"}
	case "time.Duration":
		return &mgType{Kind: mgInt, Bits: 64, Signed: true, Name: "time.Duration"}
	case "time.Month":
		return &mgType{Kind: mgInt, Bits: 64, Signed: true, Name: "time.Month"}
	case "*time.Location":
		return &mgType{Kind: mgLoc, Name: "*time.Location"}
	case "*time.Location?":
		return &mgType{Kind: mgLocOpt, Name: "*time.Location"}
	case "string":
		return &mgType{Kind: mgStr}
	case "ColumnType": // type ColumnType string (proto/column.go)
		return &mgType{Kind: mgStr, Name: "ColumnType"}
	case "error":
		return &mgType{Kind: mgError}
	case "netip.Addr":
		return &mgType{Kind: mgAddr, Name: "netip.Addr"}
	case "[4]byte":
		return &mgType{Kind: mgBytes, N: 4}
	case "[16]byte":
		return &mgType{Kind: mgBytes, N: 16}
	}
	return nil
}

// ---- translation failures ---------------------------------------------------------------------------

type mgErr struct {
	Pos token.Pos
	Msg string
}

func mgFail(n ast.Node, format string, a ...any) {
	p := token.NoPos
	if n != nil {
		p = n.Pos()
	}
	panic(mgErr{p, fmt.Sprintf(format, a...)})
}

// ---- the translator state ----------------------------------------------------------------------------

type mgConst struct {
	Val constant.Value
	T   *mgType // nil = untyped
	Coq string
}
type mgParam struct {
	Go, Coq string
	T       *mgType
}
type mgFunc struct {
	Key, File  string
	Line       int
	Decl       *ast.FuncDecl
	Imports    map[string]string // local import name -> library
	CoqName    string
	Sig        string
	Params     []mgParam
	Res        *mgType
	Partial    bool
	UsesLoc    bool
	UsesTZ     bool    // takes [tzdb] (time.LoadLocation) as a parameter
	PtrRecv    bool    // pointer receiver: the function returns the receiver's new value
	RecvGo     string  // Go name of the pointer receiver
	RecvT      *mgType // its element type
	RetSelf    bool    // result *C, every return is `return c`
	Done, Busy bool
	Pre, Body  string
	Err        string
	nloops     int
}
type minigo struct {
	repo      string
	typeDecls map[string]ast.Expr
	types     map[string]*mgType
	consts    map[string]*mgConst
	funcs     map[string]*mgFunc
	allFuncs  map[string]bool   // every func/method name of the files (to tell "not whitelisted" from "unknown")
	order     []*mgFunc         // emission order
	records   []*mgStructInfo   // generated records, in order of first use
	usedNames map[string]string // named constants referenced: Coq name -> exact value
	reserved  map[string]bool
	errs      []string
}

var mgIdentRe = regexp.MustCompile(`[A-Za-z_][A-Za-z0-9_']*`)

func (m *minigo) relPos(p token.Pos) string {
	if p == token.NoPos {
		return "?"
	}
	pos := fset.Position(p)
	rel, err := filepath.Rel(m.repo, pos.Filename)
	if err != nil {
		rel = pos.Filename
	}
	return fmt.Sprintf("%s:%d", rel, pos.Line)
}

func (m *minigo) resolveNamed(name string, at ast.Node) *mgType {
	if t, ok := m.types[name]; ok {
		if t == nil {
			mgFail(at, "recursive type %s", name)
		}
		return t
	}
	decl, ok := m.typeDecls[name]
	if !ok {
		return nil
	}
	m.types[name] = nil
	resolved := false
	defer func() {
		if !resolved {
			delete(m.types, name) // a failure is reported again at every use, not as a recursion
		}
	}()
	var t *mgType
	if st, ok := decl.(*ast.StructType); ok {
		info := &mgStructInfo{GoName: name}
		mp, mapped := mgStructMap[name]
		if mapped {
			info.Coq, info.Ctor = mp.Coq, mp.Ctor
		} else {
			info.Coq, info.Ctor, info.Generated = "go_"+name, "mk_go_"+name, true
		}
		for _, f := range st.Fields.List {
			ft := m.typeOf(f.Type)
			if len(f.Names) == 0 {
				mgFail(f, "embedded field in struct %s", name)
			}
			for _, n := range f.Names {
				info.Fields = append(info.Fields, mgField{Name: n.Name, Proj: name + "_" + n.Name, T: ft})
			}
		}
		if mapped {
			if len(info.Fields) != len(mp.Fields) {
				mgFail(st, "struct %s no longer has the %d fields of its hand-model record %s (a field was added or removed: the object has other state than the model)", name, len(mp.Fields), mp.Coq)
			}
			for i := range info.Fields {
				if info.Fields[i].Name != mp.Fields[i][0] {
					mgFail(st, "struct %s: field %d is %s, the hand-model record %s expects %s", name, i, info.Fields[i].Name, mp.Coq, mp.Fields[i][0])
				}
				info.Fields[i].Proj = mp.Fields[i][1]
			}
		}
		t = &mgType{Kind: mgStruct, Name: name, S: info}
	} else {
		u := m.typeOf(decl)
		c := *u
		c.Name = name
		t = &c
	}
	m.types[name] = t
	resolved = true
	return t
}

// typeOf resolves a type expression of the fragment.
func (m *minigo) typeOf(e ast.Expr) *mgType {
	switch x := e.(type) {
	case *ast.Ident:
		if t := m.resolveNamed(x.Name, x); t != nil {
			return t
		}
		if t := mgBuiltin(x.Name); t != nil {
			return t
		}
	case *ast.SelectorExpr:
		if id, ok := x.X.(*ast.Ident); ok {
			if t := mgBuiltin(id.Name + "." + x.Sel.Name); t != nil {
				return t
			}
		}
	case *ast.StarExpr:
		// a declared *time.Location (field, parameter, variable, result) may be nil
		if t := mgBuiltin("*" + exprText(x.X) + "?"); t != nil {
			return t
		}
	case *ast.ArrayType:
		if x.Len == nil {
			return &mgType{Kind: mgSlice, Elem: m.typeOf(x.Elt)}
		}
		if x.Len != nil {
			if t := mgBuiltin("[" + exprText(x.Len) + "]" + exprText(x.Elt)); t != nil {
				return t
			}
		}
	case *ast.ParenExpr:
		return m.typeOf(x.X)
	}
	mgFail(e, "type %s is outside the fragment", exprText(e))
	return nil
}

func (m *minigo) useRecord(t *mgType) {
	if t == nil || t.Kind != mgStruct {
		return
	}
	for _, f := range t.S.Fields {
		m.useRecord(f.T)
	}
	if !t.S.Generated {
		return
	}
	for _, r := range m.records {
		if r == t.S {
			return
		}
	}
	m.records = append(m.records, t.S)
}

func mgZ(v *big.Int) string {
	if v.Sign() < 0 {
		return "(" + v.String() + ")"
	}
	return v.String()
}

func mgBig(c constant.Value) *big.Int {
	c = constant.ToInt(c)
	if c.Kind() != constant.Int {
		return nil
	}
	switch v := constant.Val(c).(type) {
	case int64:
		return big.NewInt(v)
	case *big.Int:
		return new(big.Int).Set(v)
	}
	return nil
}

func mgRepresentable(c constant.Value, t *mgType) bool {
	v := mgBig(c)
	if v == nil || t.Kind != mgInt {
		return false
	}
	lo, hi := t.bounds()
	return v.Cmp(lo) >= 0 && v.Cmp(hi) <= 0
}

// ---- driver ------------------------------------------------------------------------------------------

func init() { registerGen([]string{"ScalFuns.v"}, minigoGen) }

func minigoGen(repo, out string) {
	m := &minigo{repo: repo, typeDecls: map[string]ast.Expr{}, types: map[string]*mgType{}, consts: map[string]*mgConst{},
		funcs: map[string]*mgFunc{}, allFuncs: map[string]bool{}, usedNames: map[string]string{}, reserved: map[string]bool{}}
	m.initReserved()
	files := map[string]*ast.File{}
	for _, rel := range mgFiles {
		f := parseFile(filepath.Join(repo, rel))
		files[rel] = f
		for _, d := range f.Decls {
			if gd, ok := d.(*ast.GenDecl); ok && gd.Tok == token.TYPE {
				for _, s := range gd.Specs {
					ts := s.(*ast.TypeSpec)
					if ts.TypeParams == nil {
						m.typeDecls[ts.Name.Name] = ts.Type
					}
				}
			}
		}
	}
	var topErr string
	func() {
		defer func() {
			if r := recover(); r != nil {
				e, ok := r.(mgErr)
				if !ok {
					panic(r)
				}
				topErr = m.relPos(e.Pos) + ": " + e.Msg
			}
		}()
		for _, rel := range mgFiles {
			m.readConsts(rel, files[rel])
		}
	}()
	// the functions
	var wl []*mgFunc
	for _, rel := range mgFiles {
		f := files[rel]
		imports := map[string]string{}
		for _, is := range f.Imports {
			p := strings.Trim(is.Path.Value, `"`)
			lib, ok := mgImports[p]
			if !ok {
				continue
			}
			name := lib
			if is.Name != nil {
				name = is.Name.Name
			}
			imports[name] = lib
		}
		found := map[string]*ast.FuncDecl{}
		for _, d := range f.Decls {
			if fd, ok := d.(*ast.FuncDecl); ok {
				key := fd.Name.Name
				if fd.Recv != nil {
					key = recvType(fd) + "." + key
				}
				found[key] = fd
				m.allFuncs[key] = true
			}
		}
		for _, key := range mgWhitelist[rel] {
			fn := &mgFunc{Key: key, File: rel, CoqName: "go_" + strings.ReplaceAll(key, ".", "_"), Imports: imports}
			if fd, ok := found[key]; ok {
				fn.Decl = fd
				fn.Line = fset.Position(fd.Pos()).Line
			} else {
				fn.Err = fmt.Sprintf("%s: whitelisted function %s not found", rel, key)
				fn.Done = true
			}
			if topErr != "" {
				fn.Err, fn.Done = topErr, true
			}
			m.funcs[key] = fn
			wl = append(wl, fn)
		}
	}
	for _, fn := range wl {
		m.translate(fn, nil)
	}
	m.emit(out)
}

func (m *minigo) initReserved() {
	for _, w := range strings.Fields(`as at cofix else end exists exists2 fix for forall fun if IF in let match mod return
		Set Prop Type then using where with struct fuel fuel' loc Some None true false negb andb orb option list nat Z O S
		i8 u8 i16 u16 i32 u32 i64 u64 two16 two31 two32 two63 two64 maxu64 maxi64 ns_per_s zero_unix
		mkT unix nsec zoff gotime addr AddrZero Addr4 Addr6 t_ZoneOffset put_be32 be32 norm go_Date
		dur_Second dur_Minute dur_Hour int128 int256 mk128 mk256 lo128 hi128 lo256 hi256 fst snd pair
		tzdb bytes TRY IN slice_len slice_at slice_oob slice_get slice_set slice_make err_nil err_new loc_is_nil
		str_eqb str_ParseUint8 load_location str_Cut str_Trim ct_Elem app length col_dt mkColDT dt_Data dt_Location col_dt64
		mkColDT64 dt64_Data dt64_Location dt64_Precision dt64_PrecisionSet
		Admitted admit Axiom Parameter Conjecture native_compute bypass_check`) {
		m.reserved[w] = true
	}
	for _, p := range mgMethodPrims {
		m.reserved[p.Coq] = true
	}
	for _, p := range mgFuncPrims {
		m.reserved[p.Coq] = true
	}
}

// coqLocal picks the Coq binder for a Go local: the same name unless it would capture something the
// translation writes.
func (m *minigo) coqLocal(name string) string {
	n := name
	for m.reserved[n] || strings.HasPrefix(n, "go_") || strings.HasPrefix(n, "mk_go_") || strings.HasPrefix(n, "Z.") {
		n += "_"
	}
	return n
}

func (m *minigo) fail(fn *mgFunc, msg string) {
	fn.Err = msg
	m.errs = append(m.errs, fmt.Sprintf("%s (%s:%d): %s", fn.Key, fn.File, fn.Line, msg))
	fmt.Fprintf(os.Stderr, "translator: minigo: TRANSLATION FAILED for %s: %s\n", fn.Key, msg)
}

// coqResult: the Gallina result type (before the option of a function that can panic)
func (fn *mgFunc) coqResult() string {
	switch {
	case !fn.PtrRecv:
		return fn.Res.coq()
	case fn.Res == nil:
		return fn.RecvT.coq()
	}
	return "(" + fn.RecvT.coq() + " * " + fn.Res.coq() + ")"
}

// translate a function (callees first); `from` is the call site when called on demand
func (m *minigo) translate(fn *mgFunc, from ast.Node) {
	if fn.Done {
		return
	}
	if fn.Busy {
		mgFail(from, "recursive call of %s", fn.Key)
	}
	fn.Busy = true
	defer func() {
		fn.Busy, fn.Done = false, true
		if r := recover(); r != nil {
			e, ok := r.(mgErr)
			if !ok {
				panic(r)
			}
			m.fail(fn, m.relPos(e.Pos)+": "+e.Msg)
		}
		m.order = append(m.order, fn)
	}()
	for pass := 0; pass < 2; pass++ {
		c := &mgCtx{m: m, fn: fn, env: map[string]*mgLocal{}}
		fn.Pre, fn.nloops = "", 0
		c.function()
		if !c.sawPartial || fn.Partial {
			break
		}
		fn.Partial = true // a panic, a panicking primitive or a division by a non-constant: translate again as option
	}
}

// ---- output -------------------------------------------------------------------------------------------

// mgHygiene keeps source text quoted in comments clear of the words lib/common.py's hygiene grep rejects
func mgHygiene(s string) string {
	for _, w := range []string{"Admitted", "admit", "Axiom", "Parameter", "Conjecture", "native_compute", "bypass_check", "Checking", "Obligations", "Abort"} {
		s = regexp.MustCompile(`\b`+w+`\b`).ReplaceAllString(s, w+"_")
	}
	return strings.ReplaceAll(s, "*)", "* )")
}

func mgSanitize(s string) string {
	s = mgHygiene(s)
	var b strings.Builder
	for _, r := range s {
		switch {
		case r >= 'a' && r <= 'z', r >= 'A' && r <= 'Z', r >= '0' && r <= '9':
			b.WriteRune(r)
		default:
			b.WriteByte('_')
		}
	}
	t := b.String()
	if len(t) > 160 {
		t = t[:160]
	}
	return t
}

func (m *minigo) emit(out string) {
	var b bytes.Buffer
	b.WriteString("(* GENERATED by /verif/translator (minigo.go) from /repo on every run — do not edit.\n")
	b.WriteString("   The scalar conversion functions of ch-go and the methods of its temporal columns, translated from their Go source (MiniGo fragment, see\n")
	b.WriteString("   translator/minigo.go for the grammar, the semantics written out and the primitive table).\n")
	b.WriteString("   Proved equal to the hand model model/Scalars.v in proofs/ScalFunsProofs.v (props/C20.v:\n")
	b.WriteString("   scalar_model_is_source).  Emission order = source order, a callee before its first caller.\n\n")
	for _, fn := range m.order {
		st := ""
		if fn.Err != "" {
			st = "   *** TRANSLATION FAILED ***"
		}
		fmt.Fprintf(&b, "     %-24s %s:%d%s\n", fn.CoqName, fn.File, fn.Line, st)
	}
	b.WriteString("*)\n")
	b.WriteString("From Coq Require Import List ZArith Bool.\nFrom CH Require Import model.Scalars model.ScalCols gen.Consts.\nImport ListNotations.\nOpen Scope bool_scope.\nOpen Scope Z_scope.\n\n")
	b.WriteString("(* a call that can panic, bound before the statement it occurs in: None = the panic *)\n")
	b.WriteString("Local Notation \"'TRY' x <- e 'IN' k\" := (match e with None => None | Some x => k end)\n  (at level 200, x name, e at level 200, k at level 200, only parsing).\n\n")
	b.WriteString("(* wraps that model/Scalars.v does not define *)\n")
	b.WriteString("Definition u8 (z : Z) : Z := z mod 256.\nDefinition i8 (z : Z) : Z := (z + 128) mod 256 - 128.\nDefinition i16 (z : Z) : Z := (z + 32768) mod 65536 - 32768.\n\n")
	if len(m.usedNames) > 0 {
		b.WriteString("(* the named constants used below have the values the translator computed from the source *)\n")
		var ns []string
		for n := range m.usedNames {
			ns = append(ns, n)
		}
		sort.Strings(ns)
		for _, n := range ns {
			fmt.Fprintf(&b, "Example minigo_const_%s : %s = %s. Proof. reflexivity. Qed.\n", n, n, m.usedNames[n])
		}
		b.WriteString("\n")
	}
	for _, r := range m.records {
		fmt.Fprintf(&b, "(* type %s struct *)\nRecord %s := %s {", r.GoName, r.Coq, r.Ctor)
		for i, f := range r.Fields {
			if i > 0 {
				b.WriteString(" ;")
			}
			fmt.Fprintf(&b, " %s : %s", f.Proj, f.T.coq())
		}
		b.WriteString(" }.\n\n")
	}
	for _, fn := range m.order {
		fmt.Fprintf(&b, "(* %s:%d  %s *)\n", fn.File, fn.Line, mgHygiene(fn.Sig))
		if fn.Err != "" {
			fmt.Fprintf(&b, "(* TRANSLATION FAILED: %s *)\n", mgHygiene(fn.Err))
			fmt.Fprintf(&b, "Definition %s := MINIGO_TRANSLATION_FAILED__%s.\n\n", fn.CoqName, mgSanitize(fn.Err))
			continue
		}
		b.WriteString(fn.Pre)
		fmt.Fprintf(&b, "Definition %s", fn.CoqName)
		if fn.UsesLoc {
			b.WriteString(" (loc : Z)")
		}
		if fn.UsesTZ {
			b.WriteString(" (tzdb : bytes -> option Z)")
		}
		for _, p := range fn.Params {
			fmt.Fprintf(&b, " (%s : %s)", p.Coq, p.T.coq())
		}
		rt := fn.coqResult()
		if fn.Partial {
			rt = "option " + rt
		}
		fmt.Fprintf(&b, " : %s :=\n%s.\n\n", rt, fn.Body)
	}
	var names []string
	for _, fn := range m.order {
		if fn.Err == "" {
			names = append(names, fn.CoqName)
		}
	}
	fmt.Fprintf(&b, "(* translated: %s *)\n", strings.Join(names, " "))
	writeFile(out, "ScalFuns.v", &b)
}
