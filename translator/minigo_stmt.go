package main

// minigo_stmt.go — declarations and statements of the MiniGo fragment (see minigo.go).

import (
	"fmt"
	"go/ast"
	"go/token"
	"strings"
)

func (c *mgCtx) declare(name string, t *mgType) *mgLocal {
	l := &mgLocal{T: t, Coq: c.m.coqLocal(name)}
	c.env[name] = l
	return l
}

func (c *mgCtx) scope() func() {
	saved := c.env
	c.env = map[string]*mgLocal{}
	for k, v := range saved {
		c.env[k] = v
	}
	return func() { c.env = saved }
}

func (c *mgCtx) function() {
	fn, fd := c.fn, c.fn.Decl
	fn.Sig = "func "
	if fd.Recv != nil && len(fd.Recv.List) == 1 {
		r := fd.Recv.List[0]
		fn.Sig += "("
		if len(r.Names) == 1 {
			fn.Sig += r.Names[0].Name + " "
		}
		fn.Sig += exprText(r.Type) + ") "
	}
	fn.Sig += fd.Name.Name + strings.TrimPrefix(exprText(fd.Type), "func")
	if fd.Type.TypeParams != nil {
		mgFail(fd, "generic function")
	}
	fn.Params = nil
	fresh := 0
	addParams := func(fl *ast.FieldList, recv bool) {
		if fl == nil {
			return
		}
		for _, f := range fl.List {
			if _, variadic := f.Type.(*ast.Ellipsis); variadic {
				mgFail(f, "variadic parameter")
			}
			var t *mgType
			if st, ptr := f.Type.(*ast.StarExpr); ptr && recv {
				// a pointer receiver is the value it points to; the function returns the new value
				t = c.m.typeOf(st.X)
				if (t.Kind != mgSlice && t.Kind != mgStruct) || t.Name == "" || len(f.Names) != 1 || f.Names[0].Name == "_" {
					mgFail(f, "pointer receiver %s (named slice and struct types with a named receiver only)", exprText(f.Type))
				}
				fn.PtrRecv, fn.RecvGo, fn.RecvT = true, f.Names[0].Name, t
			} else {
				t = c.m.typeOf(f.Type)
			}
			c.m.useRecord(t)
			names := f.Names
			if len(names) == 0 {
				names = []*ast.Ident{{Name: "_"}}
			}
			for _, n := range names {
				if n.Name == "_" {
					fresh++
					fn.Params = append(fn.Params, mgParam{Go: "_", Coq: fmt.Sprintf("unused%d", fresh), T: t})
					continue
				}
				l := c.declare(n.Name, t)
				fn.Params = append(fn.Params, mgParam{Go: n.Name, Coq: l.Coq, T: t})
			}
		}
	}
	addParams(fd.Recv, true)
	addParams(fd.Type.Params, false)
	fn.Res = nil
	switch {
	case fd.Type.Results == nil || len(fd.Type.Results.List) == 0:
		if !fn.PtrRecv {
			mgFail(fd, "a function without a result and without a pointer receiver has no effect in the fragment")
		}
	case len(fd.Type.Results.List) != 1 || len(fd.Type.Results.List[0].Names) > 0:
		mgFail(fd, "the fragment has functions with at most one unnamed result")
	default:
		rt := fd.Type.Results.List[0].Type
		if st, ok := rt.(*ast.StarExpr); ok && fn.PtrRecv && exprText(st.X) == fn.RecvT.Name {
			fn.RetSelf = true // result *C: every return must be `return c`
		} else {
			fn.Res = c.m.typeOf(rt)
			c.m.useRecord(fn.Res)
		}
	}
	if fd.Body == nil {
		mgFail(fd, "function without a body")
	}
	fn.Body = c.stmts(fd.Body.List, "  ", true, func(ind string) string {
		if fn.PtrRecv && fn.Res == nil && !fn.RetSelf {
			return ind + c.retVal("") // falling off the end of a method without results: the receiver as it is now
		}
		mgFail(fd, "control reaches the end of the function without return")
		return ""
	})
}

// takeGuards: the `if (divisor =? 0) then None else` lines of the statement just translated
func (c *mgCtx) takeGuards(ind string, tail bool, at ast.Node) string {
	if len(c.guards) == 0 {
		return ""
	}
	if !tail {
		mgFail(at, "a division by a non-constant, an index or a call that can panic in a branch that does not return (its panic cannot be hoisted)")
	}
	var b strings.Builder
	for _, g := range c.guards {
		fmt.Fprintf(&b, "%s%s\n", ind, g)
	}
	c.guards = nil
	return b.String()
}

func (c *mgCtx) some(txt string) string {
	if c.fn.Partial {
		return "Some (" + txt + ")"
	}
	return txt
}

// retVal: the function's result for the Go result text res ("" = none); a pointer-receiver method also returns the
// receiver's current value
func (c *mgCtx) retVal(res string) string {
	fn := c.fn
	if fn.PtrRecv {
		r := c.env[fn.RecvGo].Coq
		if fn.Res == nil {
			return c.some(r)
		}
		return c.some("(" + r + ", " + res + ")")
	}
	return c.some(res)
}

func mgIsPanic(s ast.Stmt) bool {
	es, ok := s.(*ast.ExprStmt)
	if !ok {
		return false
	}
	call, ok := es.X.(*ast.CallExpr)
	if !ok {
		return false
	}
	id, ok := call.Fun.(*ast.Ident)
	return ok && id.Name == "panic"
}

// terminates: the statement list ends by return or panic on every path
func mgTerminates(list []ast.Stmt) bool {
	if len(list) == 0 {
		return false
	}
	switch s := list[len(list)-1].(type) {
	case *ast.ReturnStmt:
		return true
	case *ast.ExprStmt:
		return mgIsPanic(s)
	case *ast.BlockStmt:
		return mgTerminates(s.List)
	case *ast.IfStmt:
		if s.Else == nil {
			return false
		}
		var el []ast.Stmt
		switch e := s.Else.(type) {
		case *ast.BlockStmt:
			el = e.List
		default:
			el = []ast.Stmt{e}
		}
		return mgTerminates(s.Body.List) && mgTerminates(el)
	case *ast.SwitchStmt:
		hasDefault := false
		for _, cl := range s.Body.List {
			cc := cl.(*ast.CaseClause)
			if cc.List == nil {
				hasDefault = true
			}
			if !mgTerminates(cc.Body) {
				return false
			}
		}
		return hasDefault
	}
	return false
}

func mgHasExit(list []ast.Stmt) (found ast.Node) {
	for _, s := range list {
		ast.Inspect(s, func(n ast.Node) bool {
			switch x := n.(type) {
			case *ast.ReturnStmt, *ast.BranchStmt, *ast.LabeledStmt, *ast.GoStmt, *ast.DeferStmt:
				found = n
			case *ast.ExprStmt:
				if mgIsPanic(x) {
					found = n
				}
			case *ast.FuncLit:
				found = n
			}
			return found == nil
		})
	}
	return
}

// assignedOuter: the variables of the enclosing scopes assigned in the list, in order of first assignment
func (c *mgCtx) assignedOuter(list []ast.Stmt) []string {
	var out []string
	seen := map[string]bool{}
	var walk func(list []ast.Stmt, declared map[string]bool)
	note := func(e ast.Expr, declared map[string]bool) {
		for {
			switch x := e.(type) {
			case *ast.SelectorExpr:
				e = x.X
				continue
			case *ast.ParenExpr:
				e = x.X
				continue
			case *ast.SliceExpr:
				e = x.X
				continue
			case *ast.IndexExpr:
				e = x.X
				continue
			case *ast.StarExpr:
				e = x.X
				continue
			case *ast.Ident:
				if x.Name != "_" && !declared[x.Name] && !seen[x.Name] {
					if _, ok := c.env[x.Name]; ok {
						seen[x.Name] = true
						out = append(out, x.Name)
					}
				}
			}
			return
		}
	}
	walk = func(list []ast.Stmt, outerDecl map[string]bool) {
		declared := map[string]bool{}
		for k := range outerDecl {
			declared[k] = true
		}
		for _, s := range list {
			switch x := s.(type) {
			case *ast.AssignStmt:
				for _, l := range x.Lhs {
					if x.Tok == token.DEFINE {
						if id, ok := l.(*ast.Ident); ok {
							declared[id.Name] = true
						}
					} else {
						note(l, declared)
					}
				}
			case *ast.IncDecStmt:
				note(x.X, declared)
			case *ast.DeclStmt:
				if gd, ok := x.Decl.(*ast.GenDecl); ok {
					for _, sp := range gd.Specs {
						if vs, ok := sp.(*ast.ValueSpec); ok {
							for _, n := range vs.Names {
								declared[n.Name] = true
							}
						}
					}
				}
			case *ast.ExprStmt: // the PutUint32 statement assigns its first argument
				if call, ok := x.X.(*ast.CallExpr); ok && !mgIsPanic(x) {
					if len(call.Args) > 0 {
						note(call.Args[0], declared)
					}
					if sel, ok := call.Fun.(*ast.SelectorExpr); ok { // c.M(..): a pointer-receiver method assigns c
						if id, ok := sel.X.(*ast.Ident); ok {
							note(id, declared)
						}
					}
				}
			case *ast.BlockStmt:
				walk(x.List, declared)
			case *ast.IfStmt:
				var init []ast.Stmt
				if x.Init != nil {
					init = []ast.Stmt{x.Init}
				}
				walk(append(append([]ast.Stmt{}, init...), x.Body.List...), declared)
				if x.Else != nil {
					walk(append(append([]ast.Stmt{}, init...), x.Else), declared)
				}
			case *ast.RangeStmt:
				d2 := map[string]bool{}
				for k := range declared {
					d2[k] = true
				}
				if x.Tok == token.DEFINE {
					for _, e := range []ast.Expr{x.Key, x.Value} {
						if id, ok := e.(*ast.Ident); ok {
							d2[id.Name] = true
						}
					}
				}
				walk(x.Body.List, d2)
			case *ast.ForStmt:
				d2 := map[string]bool{}
				for k := range declared {
					d2[k] = true
				}
				if as, ok := x.Init.(*ast.AssignStmt); ok && as.Tok == token.DEFINE {
					for _, l := range as.Lhs {
						if id, ok := l.(*ast.Ident); ok {
							d2[id.Name] = true
						}
					}
				}
				walk(x.Body.List, d2)
			case *ast.SwitchStmt:
				for _, cl := range x.Body.List {
					walk(cl.(*ast.CaseClause).Body, declared)
				}
			}
		}
	}
	walk(list, map[string]bool{})
	return out
}

func (c *mgCtx) tuple(names []string) (pat, val, typ string) {
	var coqs, tys []string
	for _, n := range names {
		coqs = append(coqs, c.env[n].Coq)
		tys = append(tys, c.env[n].T.coq())
	}
	if len(names) == 1 {
		return coqs[0], coqs[0], tys[0]
	}
	return "'(" + strings.Join(coqs, ", ") + ")", "(" + strings.Join(coqs, ", ") + ")", "(" + strings.Join(tys, " * ") + ")"
}

// stmts translates a statement list.  tail = falling off the end / returning is the function's result
// position; k gives the text that continues after the list.  The result starts with ind, no final newline.
func (c *mgCtx) stmts(list []ast.Stmt, ind string, tail bool, k func(ind string) string) string {
	if len(list) == 0 {
		return k(ind)
	}
	s, rest := list[0], list[1:]
	next := func() string { return c.stmts(rest, ind, tail, k) }
	noRest := func(what string) {
		if len(rest) > 0 {
			mgFail(rest[0], "statement after %s", what)
		}
	}
	bind := func(name, txt string) string {
		pre := c.takeGuards(ind, tail, s)
		return pre + ind + "let " + name + " := " + txt + " in\n" + next()
	}
	switch x := s.(type) {
	case *ast.EmptyStmt:
		return next()
	case *ast.BlockStmt:
		if len(rest) > 0 {
			mgFail(x, "nested block followed by statements")
		}
		done := c.scope()
		defer done()
		return c.stmts(x.List, ind, tail, k)

	case *ast.ReturnStmt:
		if !tail {
			mgFail(x, "return inside a branch or loop body that is not in result position")
		}
		noRest("return")
		if c.loopDepth > 0 {
			mgFail(x, "return inside a loop body")
		}
		if c.fn.PtrRecv {
			switch {
			case c.fn.RetSelf:
				id, ok := (ast.Expr)(nil), false
				if len(x.Results) == 1 {
					id, ok = x.Results[0], true
				}
				if i2, isId := id.(*ast.Ident); !ok || !isId || i2.Name != c.fn.RecvGo {
					mgFail(x, "a method with result *%s must `return %s`", c.fn.RecvT.Name, c.fn.RecvGo)
				}
				return ind + c.retVal("")
			case c.fn.Res == nil:
				if len(x.Results) != 0 {
					mgFail(x, "return with %d results", len(x.Results))
				}
				return ind + c.retVal("")
			}
			if len(x.Results) != 1 {
				mgFail(x, "return with %d results", len(x.Results))
			}
			v := c.coerce(c.expr(x.Results[0]), c.fn.Res, x.Results[0])
			pre := c.takeGuards(ind, tail, x)
			return pre + ind + c.retVal(v.Txt)
		}
		if len(x.Results) != 1 {
			mgFail(x, "return with %d results", len(x.Results))
		}
		if call, ok := x.Results[0].(*ast.CallExpr); ok {
			if k := c.callee(call); k.Prim != nil || k.Fn != nil {
				v, partial := c.callText(call, k)
				v = c.coerce(v, c.fn.Res, call)
				pre := c.takeGuards(ind, tail, x)
				if partial {
					c.sawPartial = true
					return pre + ind + v.Txt
				}
				return pre + ind + c.some(v.Txt)
			}
		}
		v := c.coerce(c.expr(x.Results[0]), c.fn.Res, x.Results[0])
		pre := c.takeGuards(ind, tail, x)
		return pre + ind + c.some(v.Txt)

	case *ast.ExprStmt:
		if mgIsPanic(x) {
			if !tail {
				mgFail(x, "panic inside a branch or loop body that is not in result position")
			}
			noRest("panic")
			c.sawPartial = true
			return ind + "None"
		}
		call, ok := x.X.(*ast.CallExpr)
		if ok {
			k := c.callee(call)
			if k.Fn != nil && k.Recv != nil {
				// c.M(e, ..) for a pointer-receiver method M without result: c := go_M c e ..
				c.m.translate(k.Fn, call)
				if k.Fn.Err != "" {
					mgFail(call, "callee %s was not translated", k.Fn.Key)
				}
				sel := call.Fun.(*ast.SelectorExpr)
				id, isId := sel.X.(*ast.Ident)
				if k.Fn.PtrRecv && k.Fn.Res == nil && isId && c.env[id.Name] != nil {
					k.stmtCall = true
					v, partial := c.callText(call, k)
					pre := c.takeGuards(ind, tail, x)
					name := c.env[id.Name].Coq
					if partial {
						if !tail {
							mgFail(x, "a call that can panic inside a branch that is not in result position")
						}
						c.sawPartial = true
						return pre + ind + "TRY " + name + " <- " + v.Txt + " IN\n" + next()
					}
					return pre + ind + "let " + name + " := " + v.Txt + " in\n" + next()
				}
				mgFail(x, "call statement `%s` is outside the fragment (c.M(..) for a pointer-receiver method without result only)", exprText(x.X))
			}
			if k.PutU32 {
				// binary.BigEndian.PutUint32(b[:], e)  ->  b := put_be32 e
				if len(call.Args) != 2 {
					mgFail(call, "PutUint32 takes 2 arguments")
				}
				sl, ok := call.Args[0].(*ast.SliceExpr)
				var id *ast.Ident
				if ok && sl.Low == nil && sl.High == nil && sl.Max == nil {
					id, _ = sl.X.(*ast.Ident)
				}
				if id == nil || c.env[id.Name] == nil || c.env[id.Name].T.Kind != mgBytes || c.env[id.Name].T.N != 4 {
					mgFail(call, "PutUint32: the destination must be b[:] for a [4]byte variable b")
				}
				v := c.coerce(c.expr(call.Args[1]), mgBuiltin("uint32"), call.Args[1])
				return bind(c.env[id.Name].Coq, "put_be32 "+v.par())
			}
		}
		mgFail(x, "expression statement `%s` is outside the fragment", exprText(x.X))

	case *ast.DeclStmt:
		gd, ok := x.Decl.(*ast.GenDecl)
		if !ok || gd.Tok != token.VAR || len(gd.Specs) != 1 {
			mgFail(x, "declaration statement outside the fragment (single var only)")
		}
		vs := gd.Specs[0].(*ast.ValueSpec)
		if len(vs.Names) != 1 || len(vs.Values) > 1 {
			mgFail(x, "var declaration of several names")
		}
		var txt string
		var t *mgType
		if vs.Type != nil {
			t = c.m.typeOf(vs.Type)
		}
		if len(vs.Values) == 1 {
			v := c.expr(vs.Values[0])
			if t != nil {
				v = c.coerce(v, t, vs.Values[0])
			} else {
				v = c.defaultType(v)
			}
			txt, t = v.Txt, v.T
		} else {
			txt = c.zero(t, x)
		}
		pre := c.takeGuards(ind, tail, s)
		l := c.declare(vs.Names[0].Name, t)
		return pre + ind + "let " + l.Coq + " := " + txt + " in\n" + next()

	case *ast.IncDecStmt:
		op := token.ADD
		if x.Tok == token.DEC {
			op = token.SUB
		}
		return c.stmts(append([]ast.Stmt{&ast.AssignStmt{Lhs: []ast.Expr{x.X}, TokPos: x.TokPos, Tok: token.ASSIGN,
			Rhs: []ast.Expr{&ast.BinaryExpr{X: x.X, OpPos: x.TokPos, Op: op, Y: &ast.BasicLit{ValuePos: x.TokPos, Kind: token.INT, Value: "1"}}}}}, rest...), ind, tail, k)

	case *ast.AssignStmt:
		return c.assign(x, rest, ind, tail, k)

	case *ast.IfStmt:
		return c.ifStmt(x, rest, ind, tail, k)

	case *ast.SwitchStmt:
		return c.switchStmt(x, rest, ind, tail, k)

	case *ast.ForStmt:
		return c.forStmt(x, rest, ind, tail, k)

	case *ast.RangeStmt:
		return c.rangeStmt(x, rest, ind, tail, k)
	}
	mgFail(s, "statement %T is outside the fragment", s)
	return ""
}

var mgOpAssign = map[token.Token]token.Token{token.ADD_ASSIGN: token.ADD, token.SUB_ASSIGN: token.SUB, token.MUL_ASSIGN: token.MUL,
	token.QUO_ASSIGN: token.QUO, token.REM_ASSIGN: token.REM, token.AND_ASSIGN: token.AND, token.OR_ASSIGN: token.OR,
	token.XOR_ASSIGN: token.XOR, token.SHL_ASSIGN: token.SHL, token.SHR_ASSIGN: token.SHR}

func (c *mgCtx) assign(x *ast.AssignStmt, rest []ast.Stmt, ind string, tail bool, k func(string) string) string {
	next := func() string { return c.stmts(rest, ind, tail, k) }
	if op, ok := mgOpAssign[x.Tok]; ok {
		if len(x.Lhs) != 1 || len(x.Rhs) != 1 {
			mgFail(x, "compound assignment of several values")
		}
		return c.stmts(append([]ast.Stmt{&ast.AssignStmt{Lhs: x.Lhs, TokPos: x.TokPos, Tok: token.ASSIGN,
			Rhs: []ast.Expr{&ast.BinaryExpr{X: x.Lhs[0], OpPos: x.TokPos, Op: op, Y: &ast.ParenExpr{X: x.Rhs[0]}}}}}, rest...), ind, tail, k)
	}
	if x.Tok != token.DEFINE && x.Tok != token.ASSIGN {
		mgFail(x, "assignment operator %s", x.Tok)
	}
	// a, b, found := strings.Cut(..) and the other multi-value primitives
	if len(x.Lhs) >= 2 && len(x.Rhs) == 1 {
		if call, ok := x.Rhs[0].(*ast.CallExpr); ok {
			if sel, ok := call.Fun.(*ast.SelectorExpr); ok {
				if _, isId := sel.X.(*ast.Ident); isId && sel.Sel.Name != "Zone" {
					if kk := c.callee(call); kk.Tuple != "" {
						return c.tupleAssign(x, call, kk.Tuple, ind, tail, next)
					}
				}
			}
		}
	}
	// _, off := t.Zone()
	if len(x.Lhs) == 2 && len(x.Rhs) == 1 {
		call, ok := x.Rhs[0].(*ast.CallExpr)
		var sel *ast.SelectorExpr
		if ok {
			sel, _ = call.Fun.(*ast.SelectorExpr)
		}
		a, _ := x.Lhs[0].(*ast.Ident)
		b, _ := x.Lhs[1].(*ast.Ident)
		if sel != nil && sel.Sel.Name == "Zone" && len(call.Args) == 0 && a != nil && b != nil && a.Name == "_" && b.Name != "_" {
			recv := c.expr(sel.X)
			if recv.T != nil && recv.T.Kind == mgTime {
				t := mgBuiltin("int")
				var l *mgLocal
				if x.Tok == token.DEFINE {
					l = c.declare(b.Name, t)
				} else if l = c.env[b.Name]; l == nil || !l.T.compatible(t) {
					mgFail(x, "assignment of the zone offset to %s", b.Name)
				}
				return ind + "let " + l.Coq + " := t_ZoneOffset " + recv.par() + " in\n" + next()
			}
		}
		mgFail(x, "two-value assignment `%s` is outside the fragment (only `_, off := t.Zone()`)", exprText(x.Rhs[0]))
	}
	if len(x.Lhs) != 1 || len(x.Rhs) != 1 {
		mgFail(x, "parallel assignment")
	}
	// the right-hand side: a call that can panic binds by match
	var v mgVal
	partial := false
	if call, ok := x.Rhs[0].(*ast.CallExpr); ok {
		if kk := c.callee(call); kk.Prim != nil || kk.Fn != nil {
			v, partial = c.callText(call, kk)
		} else {
			v = c.expr(x.Rhs[0])
		}
	} else {
		v = c.expr(x.Rhs[0])
	}
	var name string
	switch l := x.Lhs[0].(type) {
	case *ast.Ident:
		if l.Name == "_" {
			mgFail(x, "assignment to _")
		}
		if x.Tok == token.DEFINE {
			v = c.defaultType(v)
			pre := c.takeGuards(ind, tail, x)
			loc := c.declare(l.Name, v.T)
			return pre + c.bindText(loc.Coq, v, partial, ind, tail, x, next)
		}
		loc := c.env[l.Name]
		if loc == nil {
			mgFail(x, "assignment to %s, which is not a local or a parameter", l.Name)
		}
		v = c.coerce(v, loc.T, x.Rhs[0])
		name = loc.Coq
	case *ast.SelectorExpr:
		// x.F = e  ->  x := mk (.. e ..)
		id, ok := l.X.(*ast.Ident)
		if !ok || x.Tok != token.ASSIGN {
			mgFail(x, "assignment to %s is outside the fragment (x.F = e for a local struct x only)", exprText(l))
		}
		loc := c.env[id.Name]
		if loc == nil || loc.T.Kind != mgStruct {
			mgFail(x, "assignment to a field of %s", id.Name)
		}
		parts := []string{loc.T.S.Ctor}
		found := false
		for _, f := range loc.T.S.Fields {
			if f.Name == l.Sel.Name {
				found = true
				parts = append(parts, c.coerce(v, f.T, x.Rhs[0]).par())
			} else {
				parts = append(parts, "("+f.Proj+" "+loc.Coq+")")
			}
		}
		if !found {
			mgFail(x, "struct %s has no field %s", loc.T, l.Sel.Name)
		}
		if partial {
			mgFail(x, "a call that can panic assigned to a field")
		}
		v = mgVal{Txt: strings.Join(parts, " "), T: loc.T}
		name = loc.Coq
	case *ast.StarExpr:
		// *c = e for the pointer receiver c
		id, ok := l.X.(*ast.Ident)
		if !ok || x.Tok != token.ASSIGN || !c.fn.PtrRecv || id.Name != c.fn.RecvGo {
			mgFail(x, "assignment to %s is outside the fragment (*c = e for the pointer receiver c only)", exprText(l))
		}
		loc := c.env[id.Name]
		v = c.coerce(v, loc.T, x.Rhs[0])
		name = loc.Coq
	case *ast.IndexExpr:
		// s[i] = e: Go's checked store
		id, ok := l.X.(*ast.Ident)
		if !ok || x.Tok != token.ASSIGN || c.env[id.Name] == nil || c.env[id.Name].T.Kind != mgSlice || c.env[id.Name].T.Elem.Kind != mgInt {
			mgFail(x, "assignment to %s is outside the fragment (s[i] = e for a local slice of integers only)", exprText(l))
		}
		if partial {
			mgFail(x, "a call that can panic assigned to an element")
		}
		loc := c.env[id.Name]
		i := c.coerce(c.expr(l.Index), mgBuiltin("int"), l.Index)
		e := c.coerce(v, loc.T.Elem, x.Rhs[0])
		c.hoist("if slice_oob "+loc.Coq+" "+i.par()+" then None else", x, "the index expression "+exprText(l))
		v = mgVal{Txt: "slice_set " + loc.Coq + " " + i.par() + " " + e.par(), T: loc.T}
		name = loc.Coq
	default:
		mgFail(x, "assignment to %s is outside the fragment", exprText(x.Lhs[0]))
	}
	pre := c.takeGuards(ind, tail, x)
	return pre + c.bindText(name, v, partial, ind, tail, x, next)
}

func (c *mgCtx) bindText(name string, v mgVal, partial bool, ind string, tail bool, at ast.Node, next func() string) string {
	if !partial {
		return ind + "let " + name + " := " + v.Txt + " in\n" + next()
	}
	if !tail {
		mgFail(at, "a call that can panic inside a branch or loop body that is not in result position")
	}
	c.sawPartial = true
	return ind + "match " + v.Txt + " with\n" + ind + "| None => None\n" + ind + "| Some " + name + " =>\n" +
		mgIndent(next(), "  ") + "\n" + ind + "end"
}

func (c *mgCtx) cond(e ast.Expr) mgVal {
	v := c.expr(e)
	if v.T == nil || v.T.Kind != mgBool {
		mgFail(e, "condition of type %s", v.T)
	}
	return v
}

func mgElseList(s ast.Stmt) []ast.Stmt {
	if b, ok := s.(*ast.BlockStmt); ok {
		return b.List
	}
	return []ast.Stmt{s}
}

func (c *mgCtx) ifStmt(x *ast.IfStmt, rest []ast.Stmt, ind string, tail bool, k func(string) string) string {
	if x.Init != nil {
		// if init; cond { .. }  ->  init; if cond { .. }   when init declares no name that is already in scope
		as, ok := x.Init.(*ast.AssignStmt)
		if !ok {
			mgFail(x, "if with an init statement that is not an assignment")
		}
		if as.Tok == token.DEFINE {
			for _, l := range as.Lhs {
				if id, ok := l.(*ast.Ident); ok && id.Name != "_" {
					if _, exists := c.env[id.Name]; exists {
						mgFail(x, "if-init declares %s, which is already in scope", id.Name)
					}
				}
			}
		}
		y := *x
		y.Init = nil
		return c.stmts(append([]ast.Stmt{x.Init, &y}, rest...), ind, tail, k)
	}
	cv := c.cond(x.Cond)
	pre := c.takeGuards(ind, tail, x)
	in2 := ind + "  "
	branch := func(list []ast.Stmt, tl bool, kk func(string) string) string {
		done := c.scope()
		defer done()
		return c.stmts(list, in2, tl, kk)
	}
	thenT := mgTerminates(x.Body.List)
	if thenT {
		if !tail {
			mgFail(x, "return inside a branch or loop body that is not in result position")
		}
		a := branch(x.Body.List, true, k)
		var b string
		if x.Else == nil {
			b = branch(rest, tail, k)
		} else {
			el := mgElseList(x.Else)
			if !mgTerminates(el) {
				mgFail(x, "if whose first branch returns and whose else branch does not")
			}
			if len(rest) > 0 {
				mgFail(rest[0], "statement after an if/else that returns on both branches")
			}
			b = branch(el, true, k)
		}
		return pre + ind + "if " + cv.Txt + " then\n" + a + "\n" + ind + "else\n" + b
	}
	// no branch may return: the branches assign variables of the enclosing scope
	all := append([]ast.Stmt{}, x.Body.List...)
	var el []ast.Stmt
	if x.Else != nil {
		el = mgElseList(x.Else)
		all = append(all, el...)
	}
	if n := mgHasExit(all); n != nil {
		// a branch that may return but need not: `if c { A } rest` = `if c then (A; rest) else rest`
		if x.Else != nil || !tail || c.loopDepth > 0 || mgHasJump(all) != nil {
			mgFail(n, "return/panic/branch statement in an if branch that does not return on every path (supported: `if c { .. return .. }` without else, in result position, outside loops)")
		}
		outer := c.env
		for _, d := range mgDeclaredNames(x.Body.List) {
			if _, exists := outer[d]; exists {
				mgFail(x, "a branch that may return declares %s, which is already in scope", d)
			}
		}
		restK := func(i string) string {
			saved := c.env
			c.env = outer
			defer func() { c.env = saved }()
			return c.stmts(rest, i, tail, k)
		}
		a := branch(x.Body.List, true, restK)
		b := branch(rest, tail, k)
		return pre + ind + "if " + cv.Txt + " then\n" + a + "\n" + ind + "else\n" + b
	}
	w := c.assignedOuter(all)
	if len(w) == 0 {
		mgFail(x, "if statement without effect")
	}
	pat, val, _ := c.tuple(w)
	kk := func(i string) string { return i + val }
	a := branch(x.Body.List, false, kk)
	b := in2 + val
	if x.Else != nil {
		b = branch(el, false, kk)
	}
	return pre + ind + "let " + pat + " :=\n" + in2 + "if " + cv.Txt + " then\n" + mgIndent(a, "  ") + "\n" + in2 + "else\n" + mgIndent(b, "  ") + " in\n" +
		c.stmts(rest, ind, tail, k)
}

func mgIndent(s, by string) string {
	return by + strings.ReplaceAll(s, "\n", "\n"+by)
}

func (c *mgCtx) switchStmt(x *ast.SwitchStmt, rest []ast.Stmt, ind string, tail bool, k func(string) string) string {
	if x.Init != nil || x.Tag == nil {
		mgFail(x, "switch with an init statement or without a tag")
	}
	if !tail {
		mgFail(x, "switch inside a branch or loop body that is not in result position")
	}
	tag := c.expr(x.Tag)
	tag = c.defaultType(tag)
	pre := c.takeGuards(ind, tail, x)
	var dflt *ast.CaseClause
	var b strings.Builder
	b.WriteString(pre)
	first := true
	for _, cl := range x.Body.List {
		cc := cl.(*ast.CaseClause)
		for _, s := range cc.Body {
			if br, ok := s.(*ast.BranchStmt); ok {
				mgFail(br, "%s in a switch", br.Tok)
			}
		}
		if !mgTerminates(cc.Body) {
			mgFail(cc, "switch clause that does not end in return or panic")
		}
		if cc.List == nil {
			dflt = cc
			continue
		}
		var tests []string
		for _, e := range cc.List {
			v := c.coerce(c.expr(e), tag.T, e)
			if tag.T.Kind != mgInt {
				mgFail(e, "switch on %s", tag.T)
			}
			tests = append(tests, "("+tag.par()+" =? "+v.par()+")")
		}
		if len(c.guards) > 0 {
			mgFail(cc, "division by a non-constant in a case expression")
		}
		kw := "else if "
		if first {
			kw, first = "if ", false
		}
		done := c.scope()
		body := c.stmts(cc.Body, ind+"  ", true, k)
		done()
		b.WriteString(ind + kw + strings.Join(tests, " || ") + " then\n" + body + "\n")
	}
	if first {
		mgFail(x, "switch without case clauses")
	}
	b.WriteString(ind + "else\n")
	if dflt != nil {
		if len(rest) > 0 {
			mgFail(rest[0], "statement after a switch with a default clause")
		}
		done := c.scope()
		b.WriteString(c.stmts(dflt.Body, ind+"  ", true, k))
		done()
	} else {
		b.WriteString(c.stmts(rest, ind+"  ", tail, k))
	}
	return b.String()
}

// for i := C; i > x; i-- { body }   ->   Fixpoint on fuel = Z.to_nat C
func (c *mgCtx) forStmt(x *ast.ForStmt, rest []ast.Stmt, ind string, tail bool, k func(string) string) string {
	shape := "the only loop of the fragment is `for i := C; i > x; i-- { .. }` with C a constant of an unsigned type and x a loop-invariant variable"
	init, ok := x.Init.(*ast.AssignStmt)
	if !ok || init.Tok != token.DEFINE || len(init.Lhs) != 1 || len(init.Rhs) != 1 {
		mgFail(x, "%s", shape)
	}
	iv, ok := init.Lhs[0].(*ast.Ident)
	if !ok || iv.Name == "_" {
		mgFail(x, "%s", shape)
	}
	start := c.expr(init.Rhs[0])
	if start.C == nil || start.T == nil || start.T.Kind != mgInt || start.T.Signed {
		mgFail(init, "loop start %s is not a constant of an unsigned type; %s", exprText(init.Rhs[0]), shape)
	}
	if mgBig(start.C).BitLen() > 16 {
		mgFail(init, "loop start %s is too large for fuel", start.Txt)
	}
	cond, ok := x.Cond.(*ast.BinaryExpr)
	if !ok || cond.Op != token.GTR {
		mgFail(x, "loop condition `%s`; %s", exprText(x.Cond), shape)
	}
	ci, ok1 := cond.X.(*ast.Ident)
	cx, ok2 := cond.Y.(*ast.Ident)
	if !ok1 || !ok2 || ci.Name != iv.Name || c.env[cx.Name] == nil || cx.Name == iv.Name || !c.env[cx.Name].T.compatible(start.T) {
		mgFail(x, "loop condition `%s`; %s", exprText(x.Cond), shape)
	}
	post, ok := x.Post.(*ast.IncDecStmt)
	if !ok || post.Tok != token.DEC {
		mgFail(x, "loop post statement; %s", shape)
	}
	if pi, ok := post.X.(*ast.Ident); !ok || pi.Name != iv.Name {
		mgFail(x, "loop post statement; %s", shape)
	}
	if n := mgHasExit(x.Body.List); n != nil {
		mgFail(n, "return/panic/break/continue in a loop body")
	}
	// variables: W assigned in the body (outer), the bound and everything else the body reads are invariant
	w := c.assignedOuter(x.Body.List)
	for _, n := range w {
		if n == cx.Name {
			mgFail(x, "the loop bound %s is assigned in the body", n)
		}
	}
	if len(w) == 0 {
		mgFail(x, "loop without effect")
	}
	isW := map[string]bool{}
	for _, n := range w {
		isW[n] = true
	}
	var inv []string
	seen := map[string]bool{}
	addInv := func(n ast.Node) {
		ast.Inspect(n, func(nd ast.Node) bool {
			if id, ok := nd.(*ast.Ident); ok {
				if l := c.env[id.Name]; l != nil && !isW[id.Name] && !seen[id.Name] && id.Name != iv.Name {
					seen[id.Name] = true
					inv = append(inv, id.Name)
				}
			}
			return true
		})
	}
	addInv(x.Cond)
	addInv(x.Body)
	c.fn.nloops++
	name := fmt.Sprintf("%s_for%d", c.fn.CoqName, c.fn.nloops)
	pat, val, typ := c.tuple(w)
	outerInv := make([]string, len(inv))
	var params []string
	for i, n := range inv {
		outerInv[i] = c.env[n].Coq
		params = append(params, fmt.Sprintf("(%s : %s)", c.env[n].Coq, c.env[n].T.coq()))
	}
	var outerW []string
	for _, n := range w {
		outerW = append(outerW, c.env[n].Coq)
	}
	// the Fixpoint
	done := c.scope()
	il := c.declare(iv.Name, start.T)
	for _, n := range w {
		if c.env[n].Coq == il.Coq {
			mgFail(x, "loop variable shadows %s", n)
		}
	}
	var wparams []string
	for _, n := range w {
		wparams = append(wparams, fmt.Sprintf("(%s : %s)", c.env[n].Coq, c.env[n].T.coq()))
	}
	cv := c.cond(x.Cond)
	if len(c.guards) > 0 {
		mgFail(x, "division by a non-constant in a loop condition")
	}
	recur := func(i string) string {
		return i + strings.Join(append(append([]string{name, "fuel'"}, outerInv...), append([]string{il.Coq}, outerW...)...), " ")
	}
	body := c.stmts(append(append([]ast.Stmt{}, x.Body.List...), post), "      ", false, recur)
	done()
	var f strings.Builder
	fmt.Fprintf(&f, "(* the loop at %s: fuel = the constant start %s; i > x is false at i = 0 for an unsigned x *)\n", c.m.relPos(x.Pos()), exprText(init.Rhs[0]))
	fmt.Fprintf(&f, "Fixpoint %s (fuel : nat) %s (%s : Z) %s {struct fuel} : %s :=\n", name, strings.Join(params, " "), il.Coq, strings.Join(wparams, " "), typ)
	fmt.Fprintf(&f, "  match fuel with\n  | O => %s\n  | S fuel' =>\n    if %s then\n%s\n    else %s\n  end.\n", val, cv.Txt, body, val)
	c.fn.Pre += f.String()
	call := strings.Join(append(append([]string{name, "(Z.to_nat " + start.par() + ")"}, outerInv...), append([]string{start.par()}, outerW...)...), " ")
	return ind + "let " + pat + " := " + call + " in\n" + c.stmts(rest, ind, tail, k)
}

// mgHasJump: break / continue / goto / labels / go / defer / function literals
func mgHasJump(list []ast.Stmt) (found ast.Node) {
	for _, s := range list {
		ast.Inspect(s, func(n ast.Node) bool {
			switch n.(type) {
			case *ast.BranchStmt, *ast.LabeledStmt, *ast.GoStmt, *ast.DeferStmt, *ast.FuncLit:
				found = n
			}
			return found == nil
		})
	}
	return
}

// mgDeclaredNames: the names a statement list declares (at any depth)
func mgDeclaredNames(list []ast.Stmt) []string {
	var out []string
	for _, s := range list {
		ast.Inspect(s, func(n ast.Node) bool {
			switch x := n.(type) {
			case *ast.AssignStmt:
				if x.Tok == token.DEFINE {
					for _, l := range x.Lhs {
						if id, ok := l.(*ast.Ident); ok && id.Name != "_" {
							out = append(out, id.Name)
						}
					}
				}
			case *ast.ValueSpec:
				for _, id := range x.Names {
					out = append(out, id.Name)
				}
			case *ast.RangeStmt:
				if x.Tok == token.DEFINE {
					for _, e := range []ast.Expr{x.Key, x.Value} {
						if id, ok := e.(*ast.Ident); ok && id.Name != "_" {
							out = append(out, id.Name)
						}
					}
				}
			}
			return true
		})
	}
	return out
}

// a, b, c := prim(args) for the multi-value primitives of mgTuplePrims
func (c *mgCtx) tupleAssign(x *ast.AssignStmt, call *ast.CallExpr, q string, ind string, tail bool, next func() string) string {
	p := mgTuplePrims[q]
	if len(x.Lhs) != len(p.Res) {
		mgFail(x, "%s has %d results", q, len(p.Res))
	}
	if len(call.Args) != 1+len(p.Lits) && q != "strings.Cut" {
		mgFail(call, "%s takes %d arguments", q, 1+len(p.Lits))
	}
	if len(call.Args) < 1 {
		mgFail(call, "%s without arguments", q)
	}
	sv := c.coerce(c.expr(call.Args[0]), mgBuiltin("string"), call.Args[0])
	txt := p.Coq
	switch q {
	case "strings.Cut":
		var lit *ast.BasicLit
		if len(call.Args) == 2 {
			lit, _ = call.Args[1].(*ast.BasicLit)
		}
		if lit == nil || lit.Kind != token.STRING || len(c.asciiLit(lit)) != 1 {
			mgFail(call, "strings.Cut: the separator must be a one-byte string literal (model: TypeStr.cut_byte)")
		}
		txt += fmt.Sprintf(" %d%%N %s", c.asciiLit(lit)[0], sv.par())
	default:
		for i, want := range p.Lits {
			lit, ok := call.Args[1+i].(*ast.BasicLit)
			if !ok || lit.Value != want {
				mgFail(call, "%s: argument %d must be the literal %s (the model %s is written for it)", q, i+2, want, p.Coq)
			}
		}
		if p.TZ {
			c.fn.UsesTZ = true
			txt += " tzdb"
		}
		txt += " " + sv.par()
	}
	pre := c.takeGuards(ind, tail, x)
	names := make([]string, len(x.Lhs))
	for i, l := range x.Lhs {
		id, ok := l.(*ast.Ident)
		if !ok {
			mgFail(x, "assignment of a result of %s to %s", q, exprText(l))
		}
		t := mgBuiltin(p.Res[i])
		if id.Name == "_" {
			names[i] = "_"
			continue
		}
		if x.Tok == token.DEFINE {
			names[i] = c.declare(id.Name, t).Coq
			continue
		}
		loc := c.env[id.Name]
		if loc == nil || !loc.T.compatible(t) {
			mgFail(x, "assignment of a result of %s (%s) to %s", q, t, id.Name)
		}
		names[i] = loc.Coq
	}
	return pre + ind + "let '(" + strings.Join(names, ", ") + ") := " + txt + " in\n" + next()
}

// for i, v := range s { body }  ->  a structural Fixpoint over the list s; the body is in result position and the
// recursive call is its continuation
func (c *mgCtx) rangeStmt(x *ast.RangeStmt, rest []ast.Stmt, ind string, tail bool, k func(string) string) string {
	shape := "the range loop of the fragment is `for i, v := range s { .. }` or `for _, v := range s { .. }` over a slice variable s that the body does not assign"
	sid, ok := x.X.(*ast.Ident)
	if !ok || x.Tok != token.DEFINE || c.env[sid.Name] == nil || c.env[sid.Name].T.Kind != mgSlice {
		mgFail(x, "%s", shape)
	}
	sl := c.env[sid.Name]
	vid, ok := x.Value.(*ast.Ident)
	if !ok || vid.Name == "_" {
		mgFail(x, "%s", shape)
	}
	var kid *ast.Ident
	if x.Key != nil {
		if kid, ok = x.Key.(*ast.Ident); !ok {
			mgFail(x, "%s", shape)
		}
		if kid.Name == "_" {
			kid = nil
		}
	}
	if !tail {
		mgFail(x, "range loop inside a branch or loop body that is not in result position")
	}
	if n := mgHasExit(x.Body.List); n != nil {
		mgFail(n, "return/panic/break/continue in a loop body")
	}
	w := c.assignedOuter(x.Body.List)
	if len(w) == 0 {
		mgFail(x, "loop without effect")
	}
	isW := map[string]bool{}
	for _, n := range w {
		if n == sid.Name {
			mgFail(x, "the ranged slice %s is assigned in the body", n)
		}
		isW[n] = true
	}
	var inv []string
	seen := map[string]bool{vid.Name: true}
	if kid != nil {
		seen[kid.Name] = true
	}
	ast.Inspect(x.Body, func(nd ast.Node) bool {
		if id, ok := nd.(*ast.Ident); ok {
			if l := c.env[id.Name]; l != nil && !isW[id.Name] && !seen[id.Name] {
				seen[id.Name] = true
				inv = append(inv, id.Name)
			}
		}
		return true
	})
	c.fn.nloops++
	name := fmt.Sprintf("%s_range%d", c.fn.CoqName, c.fn.nloops)
	pat, val, typ := c.tuple(w)
	var outerInv, params, outerW, wparams []string
	for _, n := range inv {
		outerInv = append(outerInv, c.env[n].Coq)
		params = append(params, fmt.Sprintf("(%s : %s)", c.env[n].Coq, c.env[n].T.coq()))
	}
	for _, n := range w {
		outerW = append(outerW, c.env[n].Coq)
		wparams = append(wparams, fmt.Sprintf("(%s : %s)", c.env[n].Coq, c.env[n].T.coq()))
	}
	done := c.scope()
	idx := "idx_"
	if kid != nil {
		idx = c.declare(kid.Name, mgBuiltin("int")).Coq
	}
	vl := c.declare(vid.Name, sl.T.Elem)
	for _, n := range append(append([]string{}, outerInv...), outerW...) {
		if n == idx || n == vl.Coq {
			mgFail(x, "loop variable shadows %s", n)
		}
	}
	recur := func(i string) string {
		return i + strings.Join(append(append([]string{name}, outerInv...), append([]string{"rng'", "(" + idx + " + 1)"}, outerW...)...), " ")
	}
	c.loopDepth++
	body := c.stmts(x.Body.List, "    ", true, recur)
	c.loopDepth--
	done()
	rt := typ
	if c.fn.Partial {
		rt = "option " + typ
	}
	var f strings.Builder
	fmt.Fprintf(&f, "(* the loop at %s over the elements of %s, index %s counted from 0 *)\n", c.m.relPos(x.Pos()), sid.Name, idx)
	fmt.Fprintf(&f, "Fixpoint %s (rng : %s) (%s : Z) %s {struct rng} : %s :=\n", strings.Join(append([]string{name}, params...), " "), sl.T.coq(), idx, strings.Join(wparams, " "), rt)
	fmt.Fprintf(&f, "  match rng with\n  | [] => %s\n  | %s :: rng' =>\n%s\n  end.\n", c.some(val), vl.Coq, body)
	c.fn.Pre += f.String()
	call := strings.Join(append(append([]string{name}, outerInv...), append([]string{sl.Coq, "0"}, outerW...)...), " ")
	if c.fn.Partial {
		return ind + "match " + call + " with\n" + ind + "| None => None\n" + ind + "| Some " + strings.TrimPrefix(pat, "'") + " =>\n" +
			mgIndent(c.stmts(rest, ind, tail, k), "  ") + "\n" + ind + "end"
	}
	return ind + "let " + pat + " := " + call + " in\n" + c.stmts(rest, ind, tail, k)
}
