package main

// gostr.go (+ gostr_expr.go, gostr_stmt.go) — C19: a translator from a small, explicitly delimited fragment of Go
// over strings ("MiniGo-strings") to Gallina.  On every run the whitelisted ColumnType functions of
// /repo/proto/column.go (and every function of that file they call) are re-read (go/parser + go/ast; no type
// checker) and written to coq/gen/TypeFuns.v as one `Definition go_<Name>` each; coq/proofs/TypeFunsProofs.v proves
// each of them equal to the hand model of coq/model/TypeStr.v for ALL byte strings, so the C19 theorems
// (conflicts_refl, conflicts_sym, the documented equivalences, conflicts_diff_base, "never panics") are re-checked
// against what the code says now.
//
// THE FRAGMENT (anything else inside a translated function is a translation failure naming the construct and its
// position; the failure poisons coq/gen/TypeFuns.v only, see runGen in main.go)
//
//	decl   ::= func [ (x T) ] Name ( x T, ... ) T { stmt* }                value receiver, one result, not variadic
//	T      ::= string | named string type of the file (ColumnType) | int | bool | []string | [](named string type)
//	stmt   ::= x := e | x = e                                              one variable; no shadowing of an outer local
//	         | var x T | var x T = e | var x = e | var ( ... )             zero values: "" 0 false nil-slice
//	         | var err error                                               usable only by the Atoi form below
//	         | const x = <constant string or integer>
//	         | a, b, f := strings.Cut(e, <one-byte constant string>)        any of a b f may be _
//	         | x, err (:= | =) strconv.Atoi(e) ; if err != nil { ...return }   the two statements together, x not used
//	                                                                       in the error branch
//	         | if c { stmt* } [else { stmt* } | else if ...]                no init statement
//	         | switch [e] { case k, ..: stmt* ... [default: stmt*] }        no init, no fallthrough/break
//	         | for _, x := range e { acc = append(acc, f) }                 e a []string, f a total expression in x that
//	                                                                       does not mention acc: acc ++ List.map (fun x => f) e
//	         | return e
//	e      ::= "lit" | 'c' | 123 | true | false | x | constant of the file | (e) | !e | -123
//	         | e == e | e != e                     strings, ints, bools
//	         | e < e | e <= e | e > e | e >= e     ints
//	         | e && e | e || e                     the right operand must be total (it is evaluated conditionally)
//	         | e + e | e - e                       ints, both operands "index-like" (see below);  e + e on strings
//	         | e[a:b] | e[:b] | e[a:] | e[:]       strings; Go's bounds check written out (go_slice: Crash CIndex)
//	         | string(e) | T(e)                    conversions between string types: the identity
//	         | len(e)                              strings
//	         | e.m(e, ..) | f(e, ..)               functions of the same file (translated on demand), self-recursion included
//	         | the library calls of the primitive table below
//
// SEMANTICS WRITTEN OUT, not assumed
//   - a string / named string is a byte list (`bytes`); == is bytes_eqb; a conversion between string types is the identity;
//   - a slice expression is `go_slice s lo hi` of TypeStr.v: `Crash CIndex` unless 0 <= lo <= hi <= len(s).  A function
//     containing a slice expression, a call of such a function, or a recursive call has result type `res T`
//     (`rok v` = returned v, `Crash c` = run-time panic, `Err EFuel` = the model's fuel ran out); its partial
//     sub-expressions are bound in Go's evaluation order (`x <~ e ;; ...`) before the statement that contains them
//     (never under the right operand of && / ||, never in a `case` expression: translation failure);
//   - statements become nested let/if: an assignment shadows the Coq variable of the same name; when two or more
//     branches of an if/switch fall through to the following statements, those statements become one local function
//     (`gs_joinN`) of the variables the branches assign, called at the end of each such branch;
//   - `switch` arms are tested in source order, `default` last, the tag evaluated once;
//   - self-recursion (Conflicts on Elem()): `go_F_step` takes the recursive call as a parameter, `go_F_fuel` is the
//     Fixpoint on fuel, `go_F x .. = go_F_fuel (S (length x)) x ..` with x the receiver (first parameter).  That this
//     fuel is never exhausted is PROVED in TypeFunsProofs.v (Elem() of a string with a base is strictly shorter);
//   - `int` is Z without wrap-around.  This is sound because the only arithmetic admitted is + and - on "index-like"
//     operands: results of strings.IndexByte / LastIndexByte / len, integer literals of absolute value <= 65536, and
//     sums/differences of those (so every intermediate is bounded by len(s) + 65536 * (size of the expression), far
//     inside int64 for any string that exists); an Atoi result is never an operand of + or -;
//   - strconv.Atoi is admitted only as `x, err = strconv.Atoi(e)` followed by `if err != nil { return ... }`:
//     `match atoi e with None => <error branch> | Some x => <the rest> end` (x is not visible in the error branch, so
//     the value Go leaves in x on error is never observed);
//   - the constants of the file's const blocks are written `ct "Name"` (a lookup in gen/TypeNames.v's coltype_consts,
//     regenerated on the same run), and for each one used an `Example` in TypeFuns.v checks that the lookup yields the
//     value this translator read.
//
// THE PRIMITIVE TABLE: Go library -> coq/model/TypeStr.v (every definition below already existed there and is
// exercised against the real Go functions by the C19 harness on every run: Base/Elem/Conflicts/Infer observations
// of the implementation are compared with the model built from them)
//
//	strings.IndexByte(s, c)      zidx (index_byte c s)          -1 = None
//	strings.LastIndexByte(s, c)  zidx (last_index_byte c s)
//	strings.Cut(s, "c")          cut_byte c s                   one-byte separator only
//	strings.Split(s, "c")        split_byte c s                 one-byte separator only; Split("", ",") = [""]
//	strings.Join(l, sep)         join_with sep l
//	strings.TrimSpace(s)         trim_space s                   unicode.IsSpace, UTF-8 decoded (see TypeStr.v)
//	strings.HasPrefix(s, p)      has_prefix p s
//	strconv.Atoi(s)              atoi s                         64-bit host; None = any error
//	len(s)                       Z.of_nat (length s)
//	append(acc, f(x)) in range   acc ++ List.map (fun x => f x) l
//	s[lo:hi]                     go_slice s lo hi

import (
	"bytes"
	"fmt"
	"go/ast"
	"go/token"
	"path/filepath"
	"sort"
	"strconv"
	"strings"
)

const gsFile = "proto/column.go"

// the functions that must exist and be translated; everything of the same file they call is translated too
var gsWhitelist = []string{
	"ColumnType.Base", "ColumnType.Elem", "ColumnType.isDecimalN", "ColumnType.decimalDowncast",
	"ColumnType.normalizeCommas", "ColumnType.Conflicts", "ColumnType.IsArray",
}

// not translated, on purpose: ColumnType.With / Sub / Array (variadic, fmt.Sprintf) and String (trivial).

type gsType int

const (
	gsTNone gsType = iota
	gsTString
	gsTInt
	gsTBool
	gsTStrList
	gsTByte  // a character literal used as a byte argument
	gsTError // only in the Atoi form
	gsTUStr  // untyped string constant
	gsTUInt  // untyped integer constant
)

func (t gsType) coq() string {
	switch t {
	case gsTString, gsTUStr:
		return "bytes"
	case gsTInt, gsTUInt:
		return "Z"
	case gsTBool:
		return "bool"
	case gsTStrList:
		return "list bytes"
	case gsTByte:
		return "N"
	}
	return "?"
}

func (t gsType) String() string {
	return [...]string{"?", "string", "int", "bool", "[]string", "byte", "error", "untyped string", "untyped int"}[t]
}

type gsFunc struct {
	key       string
	coq       string
	decl      *ast.FuncDecl
	line      int
	params    []gsParam // receiver first
	res       gsType
	partial   bool
	recursive bool
	state     int // 0 = not started, 1 = in progress, 2 = done
	text      string
}

type gsParam struct {
	goName, coq string
	ty          gsType
}

type gs struct {
	repo      string
	file      *ast.File
	funcs     map[string]*gsFunc // every function of the file by key
	strTypes  map[string]bool    // named string types of the file
	consts    map[string]string  // typed/untyped string constants of the file's const blocks
	usedConst map[string]bool
	order     []*gsFunc // emission order: callee before caller
	imports   map[string]string
}

type gsErr struct{ msg string }

func (g *gs) fail(pos token.Pos, format string, a ...any) {
	p := fset.Position(pos)
	die("MiniGo-strings: %s:%d:%d: %s", gsFile, p.Line, p.Column, fmt.Sprintf(format, a...))
}

func init() { registerGen([]string{"TypeFuns.v"}, gostrGen) }

// Coq identifiers a Go local must not capture
var gsReserved = map[string]bool{}

func init() {
	for _, w := range strings.Fields(`as at cofix else end exists exists2 fix for forall fun if IF in let match mod Prop return Set then
		Type using where with by struct Definition Fixpoint Lemma Theorem Proof Qed
		rok rbind go_slice index_byte last_index_byte zidx cut_byte split_byte join_with trim_space atoi has_prefix
		bytes_eqb ct s2b map length negb andb orb fst snd app nil cons true false tt unit bool bytes list option
		Some None Ok Err Crash N Z nat O S EFuel CIndex eqb`) {
		gsReserved[w] = true
	}
}

func gsCoqIdent(name string) string {
	for _, r := range name {
		if !(r == '_' || r >= '0' && r <= '9' || r >= 'a' && r <= 'z' || r >= 'A' && r <= 'Z') {
			die("MiniGo-strings: identifier %q is not ASCII", name)
		}
	}
	if gsReserved[name] || strings.HasPrefix(name, "gs_") || strings.HasPrefix(name, "go_") {
		return name + "_"
	}
	return name
}

func gostrGen(repo, out string) {
	g := &gs{repo: repo, funcs: map[string]*gsFunc{}, strTypes: map[string]bool{}, consts: map[string]string{},
		usedConst: map[string]bool{}, imports: map[string]string{}}
	g.file = parseFile(filepath.Join(repo, gsFile))
	for _, is := range g.file.Imports {
		p, _ := strconv.Unquote(is.Path.Value)
		name := p
		if i := strings.LastIndex(p, "/"); i >= 0 {
			name = p[i+1:]
		}
		if is.Name != nil {
			name = is.Name.Name
		}
		g.imports[name] = p
	}
	// named string types, constants, functions
	for _, d := range g.file.Decls {
		switch x := d.(type) {
		case *ast.GenDecl:
			switch x.Tok {
			case token.TYPE:
				for _, s := range x.Specs {
					ts := s.(*ast.TypeSpec)
					if id, ok := ts.Type.(*ast.Ident); ok && id.Name == "string" && ts.TypeParams == nil && !ts.Assign.IsValid() {
						g.strTypes[ts.Name.Name] = true
					}
				}
			}
		case *ast.FuncDecl:
			key := x.Name.Name
			if x.Recv != nil {
				key = recvType(x) + "." + key
			}
			g.funcs[key] = &gsFunc{key: key, decl: x, line: fset.Position(x.Pos()).Line}
		}
	}
	for _, d := range g.file.Decls {
		gd, ok := d.(*ast.GenDecl)
		if !ok || gd.Tok != token.CONST {
			continue
		}
		for _, s := range gd.Specs {
			vs := s.(*ast.ValueSpec)
			if len(vs.Names) != 1 || len(vs.Values) != 1 {
				continue
			}
			lit, ok := vs.Values[0].(*ast.BasicLit)
			if !ok || lit.Kind != token.STRING {
				continue
			}
			if vs.Type != nil {
				id, ok := vs.Type.(*ast.Ident)
				if !ok || !(g.strTypes[id.Name] || id.Name == "string") {
					continue
				}
			}
			v, err := strconv.Unquote(lit.Value)
			if err != nil {
				g.fail(lit.Pos(), "constant %s: %v", vs.Names[0].Name, err)
			}
			g.consts[vs.Names[0].Name] = v
		}
	}
	if !g.strTypes["ColumnType"] {
		die("MiniGo-strings: %s: `type ColumnType string` not found", gsFile)
	}
	for _, key := range gsWhitelist {
		f, ok := g.funcs[key]
		if !ok {
			die("MiniGo-strings: %s: whitelisted function %s not found", gsFile, key)
		}
		g.translate(f, token.NoPos)
	}

	var b bytes.Buffer
	b.WriteString("(* GENERATED by /verif/translator (gostr.go) from /repo on every run — do not edit.\n")
	b.WriteString("   The ColumnType string functions of ch-go, translated from their Go source (MiniGo-strings fragment: see\n")
	b.WriteString("   translator/gostr.go for the grammar, the semantics written out and the primitive table).\n")
	b.WriteString("   Proved equal to the hand model model/TypeStr.v in proofs/TypeFunsProofs.v (props/C19.v:\n")
	b.WriteString("   type_functions_are_source).  Emission order: a callee before its first caller.\n\n")
	var names []string
	for _, f := range g.order {
		kind := "total"
		if f.partial {
			kind = "res (slice bounds checked)"
		}
		if f.recursive {
			kind = "res, recursive: _step / _fuel, fuel = S (length of the receiver)"
		}
		fmt.Fprintf(&b, "     %-24s %s:%d   %s\n", f.coq, gsFile, f.line, kind)
		names = append(names, f.coq)
	}
	fmt.Fprintf(&b, "\n   translated: %s\n*)\n", strings.Join(names, " "))
	b.WriteString("From Coq Require Import List NArith ZArith Bool String.\n")
	b.WriteString("From CH Require Import model.TypeStr gen.TypeNames.\n")
	b.WriteString("Import ListNotations.\nOpen Scope bool_scope.\nOpen Scope N_scope.\nOpen Scope list_scope.\n\n")
	b.WriteString("(* the constants used below have, in the regenerated table, the values the translator read *)\n")
	var cs []string
	for c := range g.usedConst {
		cs = append(cs, c)
	}
	sort.Strings(cs)
	for _, c := range cs {
		fmt.Fprintf(&b, "Example gostr_const_%s : ct %s = %s.\nProof. reflexivity. Qed.\n", c, coqStr(c), gsBytesLit(g.consts[c]))
	}
	b.WriteString("\n")
	// functions that are not on the whitelist were pulled in by a call: the proofs unfold them where they are used
	b.WriteString("Create HintDb gostr_helpers.\n\n")
	wl := map[string]bool{}
	for _, k := range gsWhitelist {
		wl[k] = true
	}
	for _, f := range g.order {
		b.WriteString(f.text)
		if !wl[f.key] {
			if f.recursive {
				g.fail(f.decl.Pos(), "%s: a recursive function that is not on the whitelist is outside the fragment", f.key)
			}
			fmt.Fprintf(&b, "#[export] Hint Unfold %s : gostr_helpers.\n", f.coq)
		}
		b.WriteString("\n")
	}
	fmt.Fprintf(&b, "Definition gostr_translated : list string := [%s]%%string.\n", func() string {
		var q []string
		for _, n := range names {
			q = append(q, coqStr(n))
		}
		return strings.Join(q, "; ")
	}())
	writeFile(out, "TypeFuns.v", &b)
}

// gsBytesLit renders a Go string value as a Coq byte list, with the text as a comment when printable.
func gsBytesLit(s string) string {
	if s == "" {
		return "[]"
	}
	var parts []string
	printable := true
	for i := 0; i < len(s); i++ {
		parts = append(parts, strconv.Itoa(int(s[i])))
		if s[i] < 32 || s[i] > 126 || s[i] == '*' || s[i] == '(' || s[i] == ')' || s[i] == '"' {
			printable = false
		}
	}
	r := "[" + strings.Join(parts, "; ") + "]"
	if printable {
		r += " (* " + s + " *)"
	}
	return r
}

func (g *gs) typeOf(e ast.Expr) gsType {
	switch x := e.(type) {
	case *ast.Ident:
		switch {
		case x.Name == "string" || g.strTypes[x.Name]:
			return gsTString
		case x.Name == "int":
			return gsTInt
		case x.Name == "bool":
			return gsTBool
		case x.Name == "error":
			return gsTError
		}
	case *ast.ArrayType:
		if x.Len == nil {
			if id, ok := x.Elt.(*ast.Ident); ok && (id.Name == "string" || g.strTypes[id.Name]) {
				return gsTStrList
			}
		}
	}
	g.fail(e.Pos(), "type %s is outside the fragment", exprText(e))
	return gsTNone
}

// translate f (once); `from` is the position of the call that demanded it
func (g *gs) translate(f *gsFunc, from token.Pos) {
	if f.state == 2 {
		return
	}
	if f.state == 1 {
		g.fail(from, "mutual recursion through %s is outside the fragment", f.key)
	}
	f.state = 1
	fd := f.decl
	if fd.Body == nil {
		g.fail(fd.Pos(), "%s has no body", f.key)
	}
	if fd.Type.TypeParams != nil {
		g.fail(fd.Pos(), "%s: type parameters are outside the fragment", f.key)
	}
	name := fd.Name.Name
	f.coq = "go_" + name
	if fd.Recv != nil && recvType(fd) != "ColumnType" {
		f.coq = "go_" + recvType(fd) + "_" + name
	}
	for _, o := range g.order {
		if o.coq == f.coq {
			g.fail(fd.Pos(), "two translated functions would be called %s", f.coq)
		}
	}
	addParams := func(fl *ast.FieldList, recv bool) {
		if fl == nil {
			return
		}
		for _, p := range fl.List {
			if _, ok := p.Type.(*ast.Ellipsis); ok {
				g.fail(p.Pos(), "%s: variadic parameters are outside the fragment", f.key)
			}
			if _, ok := p.Type.(*ast.StarExpr); ok {
				g.fail(p.Pos(), "%s: pointer receivers/parameters are outside the fragment", f.key)
			}
			t := g.typeOf(p.Type)
			if t == gsTError {
				g.fail(p.Pos(), "%s: parameter of type error", f.key)
			}
			if len(p.Names) == 0 {
				g.fail(p.Pos(), "%s: unnamed parameter", f.key)
			}
			for _, n := range p.Names {
				if n.Name == "_" {
					g.fail(p.Pos(), "%s: blank parameter", f.key)
				}
				f.params = append(f.params, gsParam{n.Name, gsCoqIdent(n.Name), t})
			}
		}
	}
	addParams(fd.Recv, true)
	addParams(fd.Type.Params, false)
	if len(f.params) == 0 {
		g.fail(fd.Pos(), "%s: no parameters", f.key)
	}
	if fd.Type.Results == nil || len(fd.Type.Results.List) != 1 || len(fd.Type.Results.List[0].Names) > 1 {
		g.fail(fd.Pos(), "%s: exactly one result expected", f.key)
	}
	if len(fd.Type.Results.List[0].Names) == 1 {
		g.fail(fd.Pos(), "%s: named results are outside the fragment", f.key)
	}
	f.res = g.typeOf(fd.Type.Results.List[0].Type)
	if f.res == gsTError {
		g.fail(fd.Pos(), "%s: result of type error", f.key)
	}
	// partiality and recursion are syntactic properties of the body (callees are translated first, on demand)
	f.recursive = g.callsSelf(f)
	f.partial = f.recursive || g.hasPartial(f)
	if f.recursive && f.params[0].ty != gsTString {
		g.fail(fd.Pos(), "%s: a recursive function must have a string as receiver/first parameter (the fuel)", f.key)
	}

	c := &gsCtx{g: g, f: f}
	env := newGsEnv()
	for _, p := range f.params {
		env.declare(p.goName, &gsVar{coq: p.coq, ty: p.ty})
	}
	body := c.stmts(fd.Body.List, env, nil)

	var sig []string
	for _, p := range f.params {
		sig = append(sig, fmt.Sprintf("(%s : %s)", p.coq, p.ty.coq()))
	}
	resT := f.res.coq()
	if f.partial {
		resT = "res " + gsParenT(resT)
	}
	var b strings.Builder
	fmt.Fprintf(&b, "(* %s:%d  func %s *)\n", gsFile, f.line, f.key)
	if !f.recursive {
		fmt.Fprintf(&b, "Definition %s %s : %s :=\n%s.\n", f.coq, strings.Join(sig, " "), resT, gsIndent(body, 1))
	} else {
		var ats, args []string
		for _, p := range f.params {
			ats = append(ats, p.ty.coq())
			args = append(args, p.coq)
		}
		recT := strings.Join(ats, " -> ") + " -> " + resT
		fmt.Fprintf(&b, "Definition %s_step (%s_rec : %s) %s : %s :=\n%s.\n", f.coq, f.coq, recT, strings.Join(sig, " "), resT, gsIndent(body, 1))
		fmt.Fprintf(&b, "Fixpoint %s_fuel (fuel : nat) %s : %s :=\n  match fuel with\n  | O => Err EFuel\n  | S fuel' => %s_step (%s_fuel fuel') %s\n  end.\n",
			f.coq, strings.Join(sig, " "), resT, f.coq, f.coq, strings.Join(args, " "))
		fmt.Fprintf(&b, "(* fuel: the recursive call is on a strictly shorter receiver (proved in TypeFunsProofs.v) *)\n")
		fmt.Fprintf(&b, "Definition %s %s : %s := %s_fuel (S (length %s)) %s.\n", f.coq, strings.Join(sig, " "), resT, f.coq, f.params[0].coq, strings.Join(args, " "))
	}
	f.text = b.String()
	f.state = 2
	g.order = append(g.order, f)
}

func gsParenT(t string) string {
	if strings.Contains(t, " ") {
		return "(" + t + ")"
	}
	return t
}

func gsIndent(s string, n int) string {
	pad := strings.Repeat("  ", n)
	lines := strings.Split(s, "\n")
	for i, l := range lines {
		if l != "" {
			lines[i] = pad + l
		}
	}
	return strings.Join(lines, "\n")
}

// calleeOf resolves a call expression to a function of the file (nil if it is not one)
func (g *gs) calleeOf(call *ast.CallExpr, isLocal func(string) bool) *gsFunc {
	switch fn := call.Fun.(type) {
	case *ast.Ident:
		if isLocal != nil && isLocal(fn.Name) {
			return nil
		}
		if f, ok := g.funcs[fn.Name]; ok && f.decl.Recv == nil {
			return f
		}
	case *ast.SelectorExpr:
		if id, ok := fn.X.(*ast.Ident); ok {
			if _, isPkg := g.imports[id.Name]; isPkg && (isLocal == nil || !isLocal(id.Name)) {
				return nil
			}
		}
		// a method: receivers are named string types of the file
		var found *gsFunc
		for t := range g.strTypes {
			if f, ok := g.funcs[t+"."+fn.Sel.Name]; ok {
				if found != nil {
					g.fail(call.Pos(), "method %s exists on several string types: outside the fragment", fn.Sel.Name)
				}
				found = f
			}
		}
		return found
	}
	return nil
}

func (g *gs) callsSelf(f *gsFunc) bool {
	self := false
	ast.Inspect(f.decl.Body, func(n ast.Node) bool {
		if call, ok := n.(*ast.CallExpr); ok {
			if g.calleeOf(call, nil) == f {
				self = true
			}
		}
		return true
	})
	return self
}

// hasPartial: the body contains a slice expression or a call of a partial function (callees translated first)
func (g *gs) hasPartial(f *gsFunc) bool {
	partial := false
	ast.Inspect(f.decl.Body, func(n ast.Node) bool {
		switch x := n.(type) {
		case *ast.SliceExpr:
			partial = true
		case *ast.CallExpr:
			if callee := g.calleeOf(x, nil); callee != nil && callee != f {
				g.translate(callee, x.Pos())
				if callee.partial {
					partial = true
				}
			}
		}
		return true
	})
	return partial
}

// ---- environments -----------------------------------------------------------------------------------

type gsVar struct {
	coq   string
	ty    gsType
	small bool    // index-like integer (see the header)
	lit   *string // compile-time string value, for `const sep = ","`
	ilit  *int64
	konst bool // declared by a local const
	dead  bool // an int whose value after a failed Atoi is not modelled: must not be read
}

type gsEnv struct {
	vars  map[string]*gsVar
	order []string
}

func newGsEnv() *gsEnv { return &gsEnv{vars: map[string]*gsVar{}} }

func (e *gsEnv) clone() *gsEnv {
	n := newGsEnv()
	for _, k := range e.order {
		v := *e.vars[k]
		n.vars[k] = &v
	}
	n.order = append(n.order, e.order...)
	return n
}

func (e *gsEnv) declare(name string, v *gsVar) {
	if _, ok := e.vars[name]; !ok {
		e.order = append(e.order, name)
	}
	e.vars[name] = v
}

// leave a nested block: the variables of `outer` keep their Coq names (assignments shadow), block locals vanish;
// the index-likeness of an outer integer is what the block left
func (outer *gsEnv) after(inner *gsEnv) *gsEnv {
	n := outer.clone()
	for _, k := range n.order {
		if iv, ok := inner.vars[k]; ok {
			n.vars[k].small = iv.small
			if iv.lit == nil {
				n.vars[k].lit = nil
			}
			if iv.ilit == nil {
				n.vars[k].ilit = nil
			}
		}
	}
	return n
}
