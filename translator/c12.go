package main

// C12: per-goroutine field access table of packages ch and chpool -> coq/gen/Access.v
//
// A go/ast walk (no type checker).  For every function reachable (name-based call graph inside the
// package) from the goroutines of Client.Do (before / sender / receiver / watcher / after), of the
// handshake (before / watchdog / worker / after), from Ping and ServerInfo (owner calls), from Close and
// IsClosed (callable from any goroutine), and from the pool's entry points (constructor, users, health
// checker, spawned creators, destructor, Close): which fields of ch.Client, ch.queryMetricsTotal,
// chpool.Client, chpool.Pool, chpool.connResource and which local variables of Do that its closures
// capture (pseudo-struct "ch.Do") are read / written, and under which protection
// (plain | atomic | lock:<struct>.<mutex field>).
//
// Kinds.  write = assignment, op-assignment, inc/dec, address taken, key of a composite literal,
// a mutating method called on the field, or a pointer-typed unsynchronised field handed to a callee;
// everything else is a read.  Methods on fields are classified by the field's declared type:
//   sync types (sync.Mutex/Once/WaitGroup, channels)            -> no data access (synchronisation)
//   atomic.* types                                             -> atomic read (Load) / atomic write (others)
//   types safe for concurrent use by contract (c12Safe)        -> read of the field only
//   proto.Writer, proto.Reader, compress.Writer, proto.Buffer  -> write (the few non-mutating ones listed)
//   value types with value-receiver helpers (c12Pure)          -> read
// an unknown method on a field of an unknown type stops the translator.

import (
	"go/ast"
	"go/token"
	"os"
	"path/filepath"
	"strings"
)

type c12Pkg struct {
	name    string
	dir     string
	files   map[string]*ast.File
	structs map[string]map[string]string // tracked struct -> field -> normalised type
	order   map[string][]string          // field order
	funcs   map[string]*ast.FuncDecl     // "Recv.Name" or "Name"
	fileOf  map[*ast.FuncDecl]string
}

var c12Tracked = map[string][]string{
	"ch":     {"Client", "queryMetricsTotal"},
	"chpool": {"Client", "Pool", "connResource"},
}

// types whose methods are safe for concurrent use by their documented contract
var c12Safe = map[string]bool{
	"net.Conn": true, "zap.Logger": true, "trace.Tracer": true, "metric.Meter": true,
	"puddle.Pool[connResource]": true, "puddle.Resource[connResource]": true,
}

// mutable helper objects owned through a pointer field: method -> mutates?
var c12Mut = map[string]map[string]bool{
	"proto.Writer":    {"ChainBuffer": true, "ChainWrite": true, "Flush": true, "Reset": true},
	"proto.Reader":    {"*": true},
	"compress.Writer": {"Compress": true},
	"proto.Buffer":    {"*": true},
}

// value-typed fields with read-only helpers
var c12Pure = map[string]bool{"proto.ClientHello": true, "proto.ServerHello": true, "clientVersion": true, "Options": true, "ch.Options": true, "queryMetrics": true}

func c12Norm(pkg string, e ast.Expr) string {
	s := exprText(e)
	s = strings.ReplaceAll(s, "*", "")
	s = strings.ReplaceAll(s, " ", "")
	return s
}

func c12Load(repo, name, dir string) *c12Pkg {
	p := &c12Pkg{name: name, dir: dir, files: map[string]*ast.File{}, structs: map[string]map[string]string{},
		order: map[string][]string{}, funcs: map[string]*ast.FuncDecl{}, fileOf: map[*ast.FuncDecl]string{}}
	ents, err := os.ReadDir(filepath.Join(repo, dir))
	if err != nil {
		die("c12: read %s: %v", dir, err)
	}
	for _, e := range ents {
		n := e.Name()
		if e.IsDir() || !strings.HasSuffix(n, ".go") || strings.HasSuffix(n, "_test.go") {
			continue
		}
		f := parseFile(filepath.Join(repo, dir, n))
		if strings.Contains(buildTag(f), "verif") || strings.Contains(buildTag(f), "ignore") || strings.Contains(buildTag(f), "tools") {
			continue
		}
		if f.Name.Name != name {
			continue
		}
		rel := filepath.Join(dir, n)
		p.files[rel] = f
		for _, d := range f.Decls {
			switch x := d.(type) {
			case *ast.FuncDecl:
				key := x.Name.Name
				if r := recvType(x); r != "" {
					key = strings.TrimPrefix(r, "*") + "." + key
				}
				if _, dup := p.funcs[key]; dup {
					die("c12: duplicate function %s in package %s", key, name)
				}
				p.funcs[key] = x
				p.fileOf[x] = rel
			case *ast.GenDecl:
				if x.Tok != token.TYPE {
					continue
				}
				for _, sp := range x.Specs {
					ts := sp.(*ast.TypeSpec)
					st, ok := ts.Type.(*ast.StructType)
					if !ok {
						continue
					}
					tracked := false
					for _, t := range c12Tracked[name] {
						if t == ts.Name.Name {
							tracked = true
						}
					}
					if !tracked {
						continue
					}
					fs := map[string]string{}
					for _, fl := range st.Fields.List {
						t := c12Norm(name, fl.Type)
						if len(fl.Names) == 0 {
							die("c12: embedded field in tracked struct %s.%s: shape not recognised", name, ts.Name.Name)
						}
						for _, id := range fl.Names {
							fs[id.Name] = t
							p.order[ts.Name.Name] = append(p.order[ts.Name.Name], id.Name)
						}
					}
					p.structs[ts.Name.Name] = fs
				}
			}
		}
	}
	for _, t := range c12Tracked[name] {
		if p.structs[t] == nil {
			die("c12: struct %s.%s not found", name, t)
		}
	}
	return p
}

// ---- rows ----

type c12Row struct {
	role, strct, field, kind, prot, fn, file string
	line                                     int
}

type c12Gen struct {
	p     *c12Pkg
	rows  map[c12Row]bool
	calls map[[3]string]int // chpool: (role, method on ch.Client) -> line
	seen  map[string]bool
}

func (g *c12Gen) emit(r c12Row) { g.rows[r] = true }

// ---- scopes ----

type c12Var struct {
	typ     string
	doLocal bool // a variable of Do's own scope (captured by its closures)
}

type c12Scope struct {
	vars   map[string]c12Var
	parent *c12Scope
}

func (s *c12Scope) lookup(n string) (c12Var, bool) {
	for x := s; x != nil; x = x.parent {
		if v, ok := x.vars[n]; ok {
			return v, true
		}
	}
	return c12Var{}, false
}

func (s *c12Scope) push() *c12Scope { return &c12Scope{vars: map[string]c12Var{}, parent: s} }

// walker state for one function body in one role
type c12W struct {
	g       *c12Gen
	role    string
	fn      string
	file    string
	held    []string // mutexes held, "<struct>.<field>" qualified with the package
	defers  bool     // a deferred Unlock was seen: held until the function returns
	inDo    bool     // variables declared at this level are Do locals
	doVars  bool     // track Do locals at all (only inside Do)
	hsTop   bool     // at the top level of handshake
	goCount *int     // goroutines started so far by Do / handshake
}

func (g *c12Gen) qual(t string) string { return g.p.name + "." + t }

// typeOf: best-effort syntactic type of an expression (normalised: no '*').
func (w *c12W) typeOf(e ast.Expr, sc *c12Scope) string {
	p := w.g.p
	switch x := e.(type) {
	case *ast.Ident:
		if v, ok := sc.lookup(x.Name); ok {
			return v.typ
		}
	case *ast.ParenExpr:
		return w.typeOf(x.X, sc)
	case *ast.StarExpr:
		return w.typeOf(x.X, sc)
	case *ast.UnaryExpr:
		if x.Op == token.AND {
			return w.typeOf(x.X, sc)
		}
	case *ast.CompositeLit:
		if x.Type != nil {
			return c12Norm(p.name, x.Type)
		}
	case *ast.TypeAssertExpr:
		if x.Type != nil {
			return c12Norm(p.name, x.Type)
		}
	case *ast.IndexExpr:
		t := w.typeOf(x.X, sc)
		if strings.HasPrefix(t, "[]") {
			return t[2:]
		}
	case *ast.SelectorExpr:
		t := w.typeOf(x.X, sc)
		if fs, ok := p.structs[t]; ok {
			if ft, ok := fs[x.Sel.Name]; ok {
				return ft
			}
		}
	case *ast.CallExpr:
		if id, ok := x.Fun.(*ast.Ident); ok {
			if id.Name == "new" && len(x.Args) == 1 {
				return c12Norm(p.name, x.Args[0])
			}
			if fd, ok := p.funcs[id.Name]; ok {
				return c12Result(p, fd)
			}
		}
		if sel, ok := x.Fun.(*ast.SelectorExpr); ok {
			t := w.typeOf(sel.X, sc)
			if fd, ok := p.funcs[t+"."+sel.Sel.Name]; ok {
				return c12Result(p, fd)
			}
			switch {
			case t == "puddle.Resource[connResource]" && sel.Sel.Name == "Value":
				return "connResource"
			case t == "puddle.Pool[connResource]" && sel.Sel.Name == "Acquire":
				return "puddle.Resource[connResource]"
			case t == "puddle.Pool[connResource]" && sel.Sel.Name == "AcquireAllIdle":
				return "[]puddle.Resource[connResource]"
			}
		}
	}
	return ""
}

func c12Result(p *c12Pkg, fd *ast.FuncDecl) string {
	if fd.Type.Results == nil || len(fd.Type.Results.List) == 0 {
		return ""
	}
	return c12Norm(p.name, fd.Type.Results.List[0].Type)
}
