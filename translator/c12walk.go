package main

// C12 translator, second part: the statement / expression walker and the role-specific entry points.

import (
	"go/ast"
	"go/token"
	"strings"
)

const (
	c12Read = iota
	c12Write
	c12Escape // handed to a callee as an argument
)

var c12Builtins = map[string]bool{"append": true, "len": true, "cap": true, "make": true, "new": true, "copy": true,
	"close": true, "clear": true, "delete": true, "panic": true, "min": true, "max": true}

func c12IsSync(t string) bool {
	return strings.HasPrefix(t, "sync.") || strings.HasPrefix(t, "chan") || strings.HasPrefix(t, "<-chan") || t == "errgroup.Group" || t == "context.Context" || t == "context.CancelFunc"
}

func (w *c12W) prot() string {
	switch len(w.held) {
	case 0:
		return "plain"
	case 1:
		return "lock:" + w.held[0]
	}
	die("c12: %s holds several mutexes at once (%v): shape not recognised", w.fn, w.held)
	return ""
}

func (w *c12W) line(n ast.Node) int { return fset.Position(n.Pos()).Line }

func (w *c12W) row(strct, field, kind, prot string, n ast.Node) {
	w.g.emit(c12Row{role: w.role, strct: strct, field: field, kind: kind, prot: prot, fn: w.fn, file: w.file, line: w.line(n)})
}

// fieldOf: is e a selector X.F with X of a tracked struct type and F one of its fields?
func (w *c12W) fieldOf(e ast.Expr, sc *c12Scope) (strct, field, ftype string, base ast.Expr, ok bool) {
	sel, isSel := e.(*ast.SelectorExpr)
	if !isSel {
		return
	}
	t := w.typeOf(sel.X, sc)
	fs, tracked := w.g.p.structs[t]
	if !tracked {
		return
	}
	ft, isField := fs[sel.Sel.Name]
	if !isField {
		return
	}
	return w.g.qual(t), sel.Sel.Name, ft, sel.X, true
}

func (w *c12W) doLocal(e ast.Expr, sc *c12Scope) (name, typ string, ok bool) {
	id, isId := e.(*ast.Ident)
	if !isId || !w.doVars {
		return
	}
	v, found := sc.lookup(id.Name)
	if !found || !v.doLocal {
		return
	}
	return id.Name, v.typ, true
}

// methodKind classifies a method call on a value of declared type ft. ok=false: no data access.
func (w *c12W) methodKind(ft, m, what string, n ast.Node) (kind, prot string, ok bool) {
	switch {
	case c12IsSync(ft):
		return "", "", false
	case strings.HasPrefix(ft, "atomic."):
		if m == "Load" {
			return "r", "atomic", true
		}
		return "w", "atomic", true
	case c12Safe[ft]:
		return "r", w.prot(), true
	case c12Mut[ft] != nil:
		if mut, known := c12Mut[ft][m]; known {
			if mut {
				return "w", w.prot(), true
			}
			return "r", w.prot(), true
		}
		if c12Mut[ft]["*"] {
			return "w", w.prot(), true
		}
		die("c12: %s:%d: method %s on %s of type %s is not classified (mutating or not?)", w.file, w.line(n), m, what, ft)
	case c12Pure[ft], strings.HasPrefix(ft, "func("):
		return "r", w.prot(), true
	}
	die("c12: %s:%d: method %s on %s of unclassified type %q", w.file, w.line(n), m, what, ft)
	return
}

func (w *c12W) exprs(es []ast.Expr, sc *c12Scope, ctx int) {
	for _, e := range es {
		w.expr(e, sc, ctx)
	}
}

func (w *c12W) expr(e ast.Expr, sc *c12Scope, ctx int) {
	if e == nil {
		return
	}
	switch x := e.(type) {
	case *ast.Ident:
		if name, typ, ok := w.doLocal(x, sc); ok && !c12IsSync(typ) {
			kind := "r"
			if ctx == c12Write {
				kind = "w"
			}
			w.row("ch.Do", name, kind, "plain", x)
		}
	case *ast.BasicLit:
	case *ast.ParenExpr:
		w.expr(x.X, sc, ctx)
	case *ast.StarExpr:
		w.expr(x.X, sc, ctx)
	case *ast.UnaryExpr:
		switch x.Op {
		case token.AND:
			w.expr(x.X, sc, c12Write) // address taken: the callee may write through it
		case token.ARROW:
			w.expr(x.X, sc, c12Read)
		default:
			w.expr(x.X, sc, c12Read)
		}
	case *ast.BinaryExpr:
		w.expr(x.X, sc, c12Read)
		w.expr(x.Y, sc, c12Read)
	case *ast.KeyValueExpr:
		w.expr(x.Value, sc, c12Escape)
	case *ast.CompositeLit:
		t := ""
		if x.Type != nil {
			t = c12Norm(w.g.p.name, x.Type)
		}
		if fs, tracked := w.g.p.structs[t]; tracked {
			for _, el := range x.Elts {
				kv, ok := el.(*ast.KeyValueExpr)
				if !ok {
					die("c12: %s:%d: positional composite literal of %s: shape not recognised", w.file, w.line(x), t)
				}
				k := kv.Key.(*ast.Ident).Name
				if _, ok := fs[k]; !ok {
					die("c12: %s:%d: %s has no field %s", w.file, w.line(x), t, k)
				}
				if !c12IsSync(fs[k]) {
					w.row(w.g.qual(t), k, "w", w.prot(), kv)
				}
				w.expr(kv.Value, sc, c12Escape)
			}
			return
		}
		for _, el := range x.Elts {
			if kv, ok := el.(*ast.KeyValueExpr); ok {
				w.litValue(t, kv, sc)
			} else {
				w.expr(el, sc, c12Escape)
			}
		}
	case *ast.FuncLit:
		if w.inDo {
			die("c12: %s:%d: a closure at the top level of %s in a position that is not recognised (go / defer / q.OnResult)", w.file, w.line(x), w.fn)
		}
		w.funcLit(x, sc)
	case *ast.IndexExpr:
		w.expr(x.X, sc, ctx)
		w.expr(x.Index, sc, c12Read)
	case *ast.SliceExpr:
		w.expr(x.X, sc, ctx)
		w.expr(x.Low, sc, c12Read)
		w.expr(x.High, sc, c12Read)
		w.expr(x.Max, sc, c12Read)
	case *ast.TypeAssertExpr:
		w.expr(x.X, sc, c12Read)
	case *ast.SelectorExpr:
		if strct, field, ft, base, ok := w.fieldOf(x, sc); ok {
			if !c12IsSync(ft) {
				kind := "r"
				if ctx == c12Write || (ctx == c12Escape && c12Mut[ft] != nil) {
					kind = "w"
				}
				prot := w.prot()
				if strings.HasPrefix(ft, "atomic.") {
					die("c12: %s:%d: atomic field %s.%s used without a method: shape not recognised", w.file, w.line(x), strct, field)
				}
				w.row(strct, field, kind, prot, x)
			}
			w.expr(base, sc, c12Read)
			return
		}
		// a deeper path (c.version.Major, t.v.Bytes): the access is to the enclosing field
		inner := ctx
		if inner == c12Escape {
			inner = c12Read
		}
		w.expr(x.X, sc, inner)
	case *ast.CallExpr:
		w.call(x, sc)
	default:
		// array types, func types, ... : nothing to read
	}
}

// litValue: `Key: value` inside a composite literal of an untracked type.  newPool's puddle.Config
// carries the constructor and the destructor, which run in other goroutines.
func (w *c12W) litValue(t string, kv *ast.KeyValueExpr, sc *c12Scope) {
	fl, isLit := kv.Value.(*ast.FuncLit)
	if !isLit {
		w.expr(kv.Value, sc, c12Escape)
		return
	}
	key, _ := kv.Key.(*ast.Ident)
	if w.fn == "newPool" && key != nil {
		var roles []string
		switch key.Name {
		case "Constructor":
			roles = []string{"PoolUser", "PoolSpawn", "PoolNew"}
		case "Destructor":
			roles = []string{"PoolDestructor"}
		default:
			die("c12: %s:%d: closure under key %s of %s: shape not recognised", w.file, w.line(kv), key.Name, t)
		}
		for _, r := range roles {
			w2 := *w
			w2.role, w2.held, w2.defers, w2.inDo = r, nil, false, false
			w2.funcLit(fl, sc)
		}
		return
	}
	save := w.inDo
	w.inDo = false
	w.funcLit(fl, sc)
	w.inDo = save
}

func (w *c12W) funcLit(fl *ast.FuncLit, sc *c12Scope) {
	inner := sc.push()
	w.params(fl.Type, inner, false)
	save, saveHeld, saveDef := w.inDo, w.held, w.defers
	w.inDo, w.held, w.defers = false, append([]string(nil), w.held...), false
	w.block(fl.Body.List, inner)
	w.inDo, w.held, w.defers = save, saveHeld, saveDef
}

func (w *c12W) params(ft *ast.FuncType, sc *c12Scope, doLocal bool) {
	add := func(fl *ast.FieldList) {
		if fl == nil {
			return
		}
		for _, f := range fl.List {
			t := c12Norm(w.g.p.name, f.Type)
			for _, id := range f.Names {
				sc.vars[id.Name] = c12Var{typ: t, doLocal: doLocal}
			}
		}
	}
	add(ft.Params)
	add(ft.Results)
}

var c12PoolClientCalls = map[string]bool{"Do": true, "Ping": true, "Close": true, "IsClosed": true}

func (w *c12W) call(x *ast.CallExpr, sc *c12Scope) {
	p := w.g.p
	argCtx := c12Escape
	switch f := x.Fun.(type) {
	case *ast.Ident:
		if c12Builtins[f.Name] {
			argCtx = c12Read
			if f.Name == "clear" || f.Name == "copy" || f.Name == "delete" {
				if len(x.Args) > 0 {
					w.expr(x.Args[0], sc, c12Write)
					w.exprs(x.Args[1:], sc, c12Read)
					return
				}
			}
		} else if fd, ok := p.funcs[f.Name]; ok {
			w.exprs(x.Args, sc, argCtx)
			w.visit(f.Name, fd)
			return
		} else {
			w.expr(f, sc, c12Read) // a function value held in a variable
		}
	case *ast.SelectorExpr:
		// method on a field of a tracked struct?
		if strct, field, ft, base, ok := w.fieldOf(f.X, sc); ok {
			if p.name == "chpool" && ft == "ch.Client" {
				w.poolClientCall(f.Sel.Name, x)
				w.row(strct, field, "r", w.prot(), f.X)
			} else if kind, prot, data := w.methodKind(ft, f.Sel.Name, strct+"."+field, x); data {
				w.row(strct, field, kind, prot, f.X)
			}
			w.expr(base, sc, c12Read)
			w.exprs(x.Args, sc, argCtx)
			return
		}
		// method on a local of Do?
		if name, typ, ok := w.doLocal(f.X, sc); ok {
			if typ != "" && !strings.HasPrefix(typ, "func(") && p.structs[typ] == nil && p.funcs[typ+"."+f.Sel.Name] == nil {
				if c12IsSync(typ) || strings.HasPrefix(typ, "atomic.") {
					if kind, prot, data := w.methodKind(typ, f.Sel.Name, "Do."+name, x); data {
						w.row("ch.Do", name, kind, prot, f.X)
					}
					w.exprs(x.Args, sc, argCtx)
					return
				}
			}
		}
		t := w.typeOf(f.X, sc)
		if p.name == "chpool" && t == "ch.Client" {
			w.poolClientCall(f.Sel.Name, x)
		}
		w.expr(f.X, sc, c12Read)
		w.exprs(x.Args, sc, argCtx)
		if fd, ok := p.funcs[t+"."+f.Sel.Name]; ok && t != "" {
			w.visit(t+"."+f.Sel.Name, fd)
		}
		return
	default:
		w.expr(x.Fun, sc, c12Read)
	}
	w.exprs(x.Args, sc, argCtx)
}

func (w *c12W) poolClientCall(m string, n ast.Node) {
	if !c12PoolClientCalls[m] {
		die("c12: %s:%d: chpool calls ch.Client.%s: not one of Do/Ping/Close/IsClosed, shape not recognised", w.file, w.line(n), m)
	}
	w.g.calls[[3]string{w.role, m, w.fn}] = w.line(n)
}

// mutexOp: is s `X.mux.Lock()` / `X.mux.Unlock()` on a mutex field of a tracked struct?
func (w *c12W) mutexOp(c *ast.CallExpr, sc *c12Scope) (mutex, op string, ok bool) {
	sel, isSel := c.Fun.(*ast.SelectorExpr)
	if !isSel {
		return
	}
	strct, field, ft, _, isField := w.fieldOf(sel.X, sc)
	if !isField || !strings.HasPrefix(ft, "sync.") || !strings.Contains(ft, "Mutex") {
		return
	}
	switch sel.Sel.Name {
	case "Lock", "Unlock":
		return strct + "." + field, sel.Sel.Name, true
	}
	die("c12: %s:%d: %s on mutex %s.%s: shape not recognised", w.file, w.line(c), sel.Sel.Name, strct, field)
	return
}

func (w *c12W) block(list []ast.Stmt, sc *c12Scope) {
	for _, s := range list {
		w.stmt(s, sc)
	}
}

func (w *c12W) nested(list []ast.Stmt, sc *c12Scope) {
	before := strings.Join(w.held, ",")
	w.block(list, sc.push())
	if strings.Join(w.held, ",") != before {
		die("c12: %s: a lock region crosses a block boundary: shape not recognised", w.fn)
	}
}

func (w *c12W) declare(sc *c12Scope, name, typ string) {
	if name == "_" {
		return
	}
	sc.vars[name] = c12Var{typ: typ, doLocal: w.inDo}
}

func (w *c12W) stmt(s ast.Stmt, sc *c12Scope) {
	if (w.isCh("Client.Do") && w.inDo && *w.goCount > 0 && *w.goCount < 3) || (w.isCh("Client.handshake") && w.hsTop && *w.goCount == 1) {
		// between two goroutine starts only another start is understood
		ok := false
		if es, isE := s.(*ast.ExprStmt); isE {
			if c, isC := es.X.(*ast.CallExpr); isC {
				if sel, isS := c.Fun.(*ast.SelectorExpr); isS && sel.Sel.Name == "Go" {
					ok = true
				}
			}
		}
		if !ok {
			die("c12: %s:%d: a statement between the goroutine starts of %s runs concurrently with the goroutines already started: shape not recognised", w.file, w.line(s), w.fn)
		}
	}
	switch x := s.(type) {
	case nil:
	case *ast.ExprStmt:
		if c, ok := x.X.(*ast.CallExpr); ok {
			if m, op, ok := w.mutexOp(c, sc); ok {
				if op == "Lock" {
					w.held = append(w.held, m)
				} else {
					if len(w.held) == 0 || w.held[len(w.held)-1] != m {
						die("c12: %s: Unlock of %s without a matching Lock: shape not recognised", w.fn, m)
					}
					w.held = w.held[:len(w.held)-1]
				}
				return
			}
			if w.special(c, sc) {
				return
			}
		}
		w.expr(x.X, sc, c12Read)
	case *ast.DeferStmt:
		if m, op, ok := w.mutexOp(x.Call, sc); ok {
			if op != "Unlock" || len(w.held) == 0 || w.held[len(w.held)-1] != m {
				die("c12: %s: deferred %s of %s: shape not recognised", w.fn, op, m)
			}
			w.defers = true
			return
		}
		if fl, ok := x.Call.Fun.(*ast.FuncLit); ok {
			w.exprs(x.Call.Args, sc, c12Escape)
			w2 := *w
			if w.afterRole() != "" {
				w2.role = w.afterRole()
			}
			w2.inDo = false
			w2.funcLit(fl, sc)
			return
		}
		w2 := *w
		if w.afterRole() != "" {
			w2.role = w.afterRole()
		}
		w2.inDo = false
		w2.expr(x.Call, sc, c12Read)
	case *ast.GoStmt:
		switch {
		case w.fn == "newPool":
			w2 := *w
			w2.role, w2.inDo = "PoolHealth", false
			w2.expr(x.Call, sc, c12Read)
		case w.fn == "Pool.checkMinConns":
			fl, ok := x.Call.Fun.(*ast.FuncLit)
			if !ok {
				die("c12: go statement in checkMinConns: shape not recognised")
			}
			w2 := *w
			w2.role = "PoolSpawn"
			w2.funcLit(fl, sc)
		default:
			die("c12: %s:%d: go statement in %s: goroutine structure not recognised", w.file, w.line(x), w.fn)
		}
	case *ast.AssignStmt:
		// q.OnResult = func(...) in Do: runs in the receiver (handed to decodeBlock as the block handler)
		if w.inDo && w.isCh("Client.Do") && len(x.Lhs) == 1 && len(x.Rhs) == 1 {
			if fl, ok := x.Rhs[0].(*ast.FuncLit); ok {
				if exprText(x.Lhs[0]) != "q.OnResult" {
					die("c12: %s:%d: closure assigned to %s in Do: shape not recognised", w.file, w.line(x), exprText(x.Lhs[0]))
				}
				w.expr(x.Lhs[0], sc, c12Write)
				w2 := *w
				w2.role, w2.inDo = "Receiver", false
				w2.funcLit(fl, sc)
				return
			}
		}
		w.exprs(x.Rhs, sc, c12Escape)
		if x.Tok == token.DEFINE {
			for i, l := range x.Lhs {
				id, ok := l.(*ast.Ident)
				if !ok {
					continue
				}
				t := ""
				if len(x.Rhs) == len(x.Lhs) {
					t = w.typeOf(x.Rhs[i], sc)
					if c, ok := x.Rhs[i].(*ast.CallExpr); ok && t == "" {
						ft := exprText(c.Fun)
						if ft == "make" && len(c.Args) > 0 {
							t = c12Norm(w.g.p.name, c.Args[0])
						}
					}
				} else if len(x.Rhs) == 1 {
					if i == 0 {
						t = w.typeOf(x.Rhs[0], sc)
					}
					if ft := exprText(x.Rhs[0]); strings.HasPrefix(ft, "errgroup.WithContext(") {
						t = []string{"errgroup.Group", "context.Context"}[i%2]
					}
				}
				if _, exists := sc.vars[id.Name]; exists {
					// redeclaration in the same scope assigns
					w.expr(id, sc, c12Write)
					if t != "" {
						v := sc.vars[id.Name]
						if v.typ == "" {
							v.typ = t
							sc.vars[id.Name] = v
						}
					}
					continue
				}
				w.declare(sc, id.Name, t)
				if w.inDo && w.doVars {
					w.expr(id, sc, c12Write)
				}
			}
			return
		}
		w.exprs(x.Lhs, sc, c12Write)
	case *ast.IncDecStmt:
		w.expr(x.X, sc, c12Write)
	case *ast.DeclStmt:
		gd, ok := x.Decl.(*ast.GenDecl)
		if !ok || gd.Tok != token.VAR {
			return
		}
		for _, sp := range gd.Specs {
			vs := sp.(*ast.ValueSpec)
			w.exprs(vs.Values, sc, c12Escape)
			for i, id := range vs.Names {
				t := ""
				if vs.Type != nil {
					t = c12Norm(w.g.p.name, vs.Type)
				} else if i < len(vs.Values) {
					t = w.typeOf(vs.Values[i], sc)
				}
				w.declare(sc, id.Name, t)
			}
		}
	case *ast.ReturnStmt:
		w.exprs(x.Results, sc, c12Read)
	case *ast.BlockStmt:
		w.nestedKeep(x.List, sc)
	case *ast.IfStmt:
		inner := sc
		if !w.inDo {
			inner = sc.push()
		} else {
			inner = sc.push()
		}
		w.stmt(x.Init, inner)
		w.expr(x.Cond, inner, c12Read)
		w.nestedIn(x.Body.List, inner)
		if x.Else != nil {
			w.stmt(x.Else, inner)
		}
	case *ast.ForStmt:
		inner := sc.push()
		w.stmt(x.Init, inner)
		w.expr(x.Cond, inner, c12Read)
		w.stmt(x.Post, inner)
		w.nestedIn(x.Body.List, inner)
	case *ast.RangeStmt:
		inner := sc.push()
		w.expr(x.X, inner, c12Read)
		if x.Tok == token.DEFINE {
			et := w.typeOf(x.X, sc)
			if id, ok := x.Key.(*ast.Ident); ok && id != nil {
				inner.vars[id.Name] = c12Var{}
			}
			if id, ok := x.Value.(*ast.Ident); ok && id != nil {
				t := ""
				if strings.HasPrefix(et, "[]") {
					t = et[2:]
				}
				inner.vars[id.Name] = c12Var{typ: t}
			}
		} else {
			w.expr(x.Key, inner, c12Write)
			w.expr(x.Value, inner, c12Write)
		}
		w.nestedIn(x.Body.List, inner)
	case *ast.SwitchStmt:
		inner := sc.push()
		w.stmt(x.Init, inner)
		w.expr(x.Tag, inner, c12Read)
		for _, cc := range x.Body.List {
			c := cc.(*ast.CaseClause)
			w.exprs(c.List, inner, c12Read)
			w.nestedIn(c.Body, inner)
		}
	case *ast.TypeSwitchStmt:
		inner := sc.push()
		w.stmt(x.Init, inner)
		w.stmt(x.Assign, inner)
		for _, cc := range x.Body.List {
			c := cc.(*ast.CaseClause)
			w.nestedIn(c.Body, inner)
		}
	case *ast.SelectStmt:
		for _, cc := range x.Body.List {
			c := cc.(*ast.CommClause)
			inner := sc.push()
			w.stmt(c.Comm, inner)
			w.nestedIn(c.Body, inner)
		}
	case *ast.SendStmt:
		w.expr(x.Chan, sc, c12Read)
		w.expr(x.Value, sc, c12Read)
	case *ast.LabeledStmt:
		w.stmt(x.Stmt, sc)
	case *ast.BranchStmt, *ast.EmptyStmt:
	default:
		die("c12: %s:%d: statement kind %T not handled", w.file, w.line(s), s)
	}
}

// nestedIn walks a nested statement list in the given (already pushed) scope; a lock region may not cross it.
func (w *c12W) nestedIn(list []ast.Stmt, sc *c12Scope) {
	saved := append([]string(nil), w.held...)
	w.block(list, sc.push())
	if strings.Join(w.held, ",") != strings.Join(saved, ",") {
		// `if cond { mu.Unlock(); return }`: the region ends on this path only
		leaves := false
		if len(list) > 0 {
			switch list[len(list)-1].(type) {
			case *ast.ReturnStmt, *ast.BranchStmt:
				leaves = true
			}
		}
		if !leaves {
			die("c12: %s: a lock region crosses a block boundary: shape not recognised", w.fn)
		}
		w.held = saved
	}
}

// nestedKeep: a bare block `{ ... }` (Do uses one to set up the logger): variables stay Do locals.
func (w *c12W) nestedKeep(list []ast.Stmt, sc *c12Scope) { w.nestedIn(list, sc) }

// afterRole: the role in which deferred calls of the current function run ("" = same role).
func (w *c12W) afterRole() string {
	if w.g.p.name != "ch" {
		return ""
	}
	switch w.fn {
	case "Client.Do":
		if w.inDo {
			return "DoAfter"
		}
	case "Client.handshake", "Connect", "Dial":
		if strings.HasPrefix(w.role, "Hs") && (w.role == "HsBefore" || w.role == "HsAfter") {
			return "HsAfter"
		}
	}
	return ""
}

func (w *c12W) isCh(fn string) bool { return w.g.p.name == "ch" && w.fn == fn }
