package main

// gostr_stmt.go — statements of the MiniGo-strings fragment (see gostr.go): a statement list becomes one Gallina term.

import (
	"fmt"
	"go/ast"
	"go/token"
	"strings"
)

// what follows a statement list when control falls off its end (nil: the end of the function body)
type gsCont func(env *gsEnv) string

func gsBinds(binds []gsBind, tail string) string {
	var b strings.Builder
	for _, bd := range binds {
		fmt.Fprintf(&b, "%s <~ %s ;;\n", bd.name, bd.rhs)
	}
	b.WriteString(tail)
	return b.String()
}

func gsConcrete(t gsType) gsType {
	switch t {
	case gsTUStr:
		return gsTString
	case gsTUInt:
		return gsTInt
	}
	return t
}

func gsTerminates(list []ast.Stmt) bool {
	if len(list) == 0 {
		return false
	}
	switch s := list[len(list)-1].(type) {
	case *ast.ReturnStmt:
		return true
	case *ast.IfStmt:
		if s.Else == nil || !gsTerminates(s.Body.List) {
			return false
		}
		switch e := s.Else.(type) {
		case *ast.BlockStmt:
			return gsTerminates(e.List)
		case *ast.IfStmt:
			return gsTerminates([]ast.Stmt{e})
		}
	case *ast.SwitchStmt:
		hasDefault := false
		for _, cl := range s.Body.List {
			cc := cl.(*ast.CaseClause)
			if cc.List == nil {
				hasDefault = true
			}
			if !gsTerminates(cc.Body) {
				return false
			}
		}
		return hasDefault
	}
	return false
}

// the variables of env assigned (with =) somewhere in the statement lists, in declaration order
func gsAssigned(env *gsEnv, bodies ...[]ast.Stmt) []string {
	set := map[string]bool{}
	for _, body := range bodies {
		for _, s := range body {
			ast.Inspect(s, func(n ast.Node) bool {
				if as, ok := n.(*ast.AssignStmt); ok && as.Tok != token.DEFINE {
					for _, l := range as.Lhs {
						if id, ok := l.(*ast.Ident); ok {
							if _, ok := env.vars[id.Name]; ok {
								set[id.Name] = true
							}
						}
					}
				}
				return true
			})
		}
	}
	var out []string
	for _, n := range env.order {
		if set[n] && env.vars[n].ty != gsTError {
			out = append(out, n)
		}
	}
	return out
}

func (c *gsCtx) stmts(list []ast.Stmt, env *gsEnv, k gsCont) string {
	g := c.g
	if len(list) == 0 {
		if k == nil {
			g.fail(c.f.decl.Body.Rbrace, "%s: control reaches the end of the function without a return", c.f.key)
		}
		return k(env)
	}
	s, rest := list[0], list[1:]
	switch x := s.(type) {
	case *ast.EmptyStmt:
		return c.stmts(rest, env, k)

	case *ast.ReturnStmt:
		if len(x.Results) != 1 {
			g.fail(x.Pos(), "return with %d results is outside the fragment", len(x.Results))
		}
		e := c.coerce(c.expr(x.Results[0], env), c.f.res, x.Pos())
		if !c.f.partial {
			if len(e.binds) > 0 {
				g.fail(x.Pos(), "internal: binds in a total function")
			}
			return e.text
		}
		if n := len(e.binds); n > 0 && e.text == e.binds[n-1].name {
			return gsBinds(e.binds[:n-1], e.binds[n-1].rhs)
		}
		return gsBinds(e.binds, "rok "+e.p())

	case *ast.AssignStmt:
		return c.assign(x, rest, env, k)

	case *ast.DeclStmt:
		return c.decl(x, rest, env, k)

	case *ast.IfStmt:
		if x.Init != nil {
			g.fail(x.Init.Pos(), "if with an init statement is outside the fragment")
		}
		cond := c.coerce(c.expr(x.Cond, env), gsTBool, x.Cond.Pos())
		var elseBody []ast.Stmt
		switch e := x.Else.(type) {
		case nil:
		case *ast.BlockStmt:
			elseBody = e.List
		case *ast.IfStmt:
			elseBody = []ast.Stmt{e}
		default:
			g.fail(x.Else.Pos(), "else branch of an unexpected shape")
		}
		return gsBinds(cond.binds, c.branches([]string{cond.text}, [][]ast.Stmt{x.Body.List, elseBody}, rest, env, k))

	case *ast.SwitchStmt:
		return c.switchStmt(x, rest, env, k)

	case *ast.RangeStmt:
		return c.rangeMap(x, rest, env, k)
	}
	g.fail(s.Pos(), "statement %T is outside the fragment", s)
	return ""
}

// a multi-way branch: conds[i] guards bodies[i], bodies[len(conds)] is the else/default body (possibly empty)
func (c *gsCtx) branches(conds []string, bodies [][]ast.Stmt, rest []ast.Stmt, env *gsEnv, k gsCont) string {
	reach := 0
	for _, b := range bodies {
		if !gsTerminates(b) {
			reach++
		}
	}
	var restK gsCont
	prefix := ""
	switch {
	case reach == 0:
		restK = nil
	case reach == 1:
		restK = func(benv *gsEnv) string { return c.stmts(rest, env.after(benv), k) }
	default:
		// the statements that follow become one local function of the variables the branches assign
		vars := gsAssigned(env, bodies...)
		jenv := env.clone()
		var formals, actuals []string
		for _, v := range vars {
			jv := jenv.vars[v]
			jv.small, jv.lit, jv.ilit = false, nil, nil
			formals = append(formals, fmt.Sprintf("(%s : %s)", jv.coq, jv.ty.coq()))
			actuals = append(actuals, jv.coq)
		}
		if len(vars) == 0 {
			formals, actuals = []string{"(_ : unit)"}, []string{"tt"}
		}
		c.njoin++
		name := fmt.Sprintf("gs_join%d", c.njoin)
		body := c.stmts(rest, jenv, k)
		prefix = fmt.Sprintf("let %s := fun %s =>\n%s in\n", name, strings.Join(formals, " "), gsIndent("("+body+")", 2))
		call := name + " " + strings.Join(actuals, " ")
		restK = func(benv *gsEnv) string { return call }
	}
	var b strings.Builder
	b.WriteString(prefix)
	for i, cond := range conds {
		t := c.stmts(bodies[i], env.clone(), restK)
		if strings.Contains(t, "\n") {
			fmt.Fprintf(&b, "if %s then (\n%s\n) else ", cond, gsIndent(t, 1))
		} else {
			fmt.Fprintf(&b, "if %s then %s else\n", cond, gsWrap(t))
		}
	}
	t := c.stmts(bodies[len(conds)], env.clone(), restK)
	b.WriteString("(" + t + ")")
	return b.String()
}

func gsWrap(t string) string {
	if strings.ContainsAny(t, " ") {
		return "(" + t + ")"
	}
	return t
}

func (c *gsCtx) eqText(a, b gsExpr, pos token.Pos) string {
	a, b = c.unify(a, b, pos)
	switch a.ty {
	case gsTString:
		return "bytes_eqb " + a.p() + " " + b.p()
	case gsTInt:
		return "Z.eqb " + a.p() + " " + b.p()
	case gsTBool:
		return "Bool.eqb " + a.p() + " " + b.p()
	}
	c.g.fail(pos, "== on %s is outside the fragment", a.ty)
	return ""
}

func (c *gsCtx) switchStmt(x *ast.SwitchStmt, rest []ast.Stmt, env *gsEnv, k gsCont) string {
	g := c.g
	if x.Init != nil {
		g.fail(x.Init.Pos(), "switch with an init statement is outside the fragment")
	}
	var binds []gsBind
	pre := ""
	var tag *gsExpr
	if x.Tag != nil {
		t := c.expr(x.Tag, env)
		binds = t.binds
		t.binds = nil
		t.ty = gsConcrete(t.ty)
		if !t.atom {
			name := c.fresh("tag")
			pre = fmt.Sprintf("let %s := %s in\n", name, t.text)
			t.text, t.atom = name, true
		}
		tag = &t
	}
	var conds []string
	var bodies [][]ast.Stmt
	var deflt []ast.Stmt
	seenDefault := false
	for _, cl := range x.Body.List {
		cc := cl.(*ast.CaseClause)
		for _, st := range cc.Body {
			if br, ok := st.(*ast.BranchStmt); ok {
				g.fail(br.Pos(), "%s in a switch is outside the fragment", br.Tok)
			}
		}
		if cc.List == nil {
			if seenDefault {
				g.fail(cc.Pos(), "two default clauses")
			}
			seenDefault = true
			deflt = cc.Body
			continue
		}
		var tests []string
		for _, v := range cc.List {
			e := c.expr(v, env)
			if len(e.binds) > 0 {
				g.fail(v.Pos(), "a possibly panicking case expression (evaluated conditionally) is outside the fragment")
			}
			if tag != nil {
				tests = append(tests, "("+c.eqText(*tag, e, v.Pos())+")")
			} else {
				e = c.coerce(e, gsTBool, v.Pos())
				tests = append(tests, e.p())
			}
		}
		conds = append(conds, strings.Join(tests, " || "))
		bodies = append(bodies, cc.Body)
	}
	bodies = append(bodies, deflt)
	if len(conds) == 0 {
		// only a default clause (or nothing): its body, then the rest
		return gsBinds(binds, pre+c.branches(nil, bodies, rest, env, k))
	}
	return gsBinds(binds, pre+c.branches(conds, bodies, rest, env, k))
}

func gsIdent(e ast.Expr) (string, bool) {
	id, ok := e.(*ast.Ident)
	if !ok {
		return "", false
	}
	return id.Name, true
}

// is `call` the library function pkgpath.name ?
func (c *gsCtx) isLib(e ast.Expr, env *gsEnv, full string) (*ast.CallExpr, bool) {
	call, ok := e.(*ast.CallExpr)
	if !ok {
		return nil, false
	}
	sel, ok := call.Fun.(*ast.SelectorExpr)
	if !ok {
		return nil, false
	}
	id, ok := sel.X.(*ast.Ident)
	if !ok {
		return nil, false
	}
	if _, local := env.vars[id.Name]; local {
		return nil, false
	}
	if path, ok := c.g.imports[id.Name]; ok && path+"."+sel.Sel.Name == full {
		return call, true
	}
	return nil, false
}

// bind the left-hand side name of := / = ; returns the Coq binder
func (c *gsCtx) lhs(l ast.Expr, tok token.Token, ty gsType, env *gsEnv, upd func(v *gsVar)) string {
	g := c.g
	name, ok := gsIdent(l)
	if !ok {
		g.fail(l.Pos(), "assignment to %s is outside the fragment (variables only)", exprText(l))
	}
	if name == "_" {
		return "_"
	}
	if tok == token.DEFINE {
		if _, exists := env.vars[name]; exists {
			g.fail(l.Pos(), "`%s :=` redeclares or shadows a visible variable: outside the fragment", name)
		}
		if _, isConst := g.consts[name]; isConst {
			g.fail(l.Pos(), "local %s shadows a constant of the file: outside the fragment", name)
		}
		v := &gsVar{coq: gsCoqIdent(name), ty: ty}
		if upd != nil {
			upd(v)
		}
		env.declare(name, v)
		return v.coq
	}
	if tok != token.ASSIGN {
		g.fail(l.Pos(), "assignment operator %s is outside the fragment", tok)
	}
	v, exists := env.vars[name]
	if !exists {
		g.fail(l.Pos(), "assignment to %s, which is not a local variable", name)
	}
	if v.konst {
		g.fail(l.Pos(), "assignment to the constant %s", name)
	}
	if v.ty != ty {
		g.fail(l.Pos(), "assignment of a %s to %s of type %s", ty, name, v.ty)
	}
	v.small, v.lit, v.ilit, v.dead = false, nil, nil, false
	if upd != nil {
		upd(v)
	}
	return v.coq
}

func (c *gsCtx) assign(x *ast.AssignStmt, rest []ast.Stmt, env *gsEnv, k gsCont) string {
	g := c.g
	if len(x.Rhs) != 1 {
		g.fail(x.Pos(), "parallel assignment is outside the fragment")
	}
	// a, b, f := strings.Cut(e, sep)
	if call, ok := c.isLib(x.Rhs[0], env, "strings.Cut"); ok {
		if len(x.Lhs) != 3 || len(call.Args) != 2 {
			g.fail(x.Pos(), "strings.Cut: `a, b, f := strings.Cut(e, sep)` expected")
		}
		s := c.coerce(c.expr(call.Args[0], env), gsTString, call.Pos())
		sep := c.oneByte(call.Args[1], env, "strings.Cut")
		if x.Tok == token.DEFINE {
			fresh := false
			for _, l := range x.Lhs {
				if n, ok := gsIdent(l); ok && n != "_" {
					fresh = true
				}
			}
			if !fresh {
				g.fail(x.Pos(), "no new variable on the left of :=")
			}
		}
		a := c.lhs(x.Lhs[0], x.Tok, gsTString, env, nil)
		b := c.lhs(x.Lhs[1], x.Tok, gsTString, env, nil)
		f := c.lhs(x.Lhs[2], x.Tok, gsTBool, env, nil)
		return gsBinds(s.binds, fmt.Sprintf("let '(%s, %s, %s) := cut_byte %s %s in\n", a, b, f, sep, s.p())+c.stmts(rest, env, k))
	}
	// x, err = strconv.Atoi(e) ; if err != nil { ... return }
	if call, ok := c.isLib(x.Rhs[0], env, "strconv.Atoi"); ok {
		return c.atoi(x, call, rest, env, k)
	}
	if len(x.Lhs) != 1 {
		g.fail(x.Pos(), "multiple assignment from %s is outside the fragment", exprText(x.Rhs[0]))
	}
	// l := strings.Split(..) ; for i := range l { l[i] = f(l[i]) }   ==>   l := List.map (fun e => f e) (split ..)
	// (the slice is fresh and no other name for it exists yet, so the update in place is a map)
	if _, isSplit := c.isLib(x.Rhs[0], env, "strings.Split"); isSplit && x.Tok == token.DEFINE && len(rest) > 0 {
		if ln, ok := gsIdent(x.Lhs[0]); ok && ln != "_" {
			if rs, ok := rest[0].(*ast.RangeStmt); ok {
				if elem, body, ok := gsInPlaceMap(ln, rs); ok {
					l := c.coerce(c.expr(x.Rhs[0], env), gsTStrList, x.Rhs[0].Pos())
					benv := env.clone()
					if _, exists := benv.vars[elem]; exists {
						g.fail(rs.Pos(), "internal: element name %s is taken", elem)
					}
					xv := &gsVar{coq: gsCoqIdent(elem), ty: gsTString}
					benv.declare(elem, xv)
					f := c.coerce(c.expr(body, benv), gsTString, body.Pos())
					if len(f.binds) > 0 {
						g.fail(body.Pos(), "a possibly panicking expression inside the loop is outside the fragment")
					}
					name := c.lhs(x.Lhs[0], x.Tok, gsTStrList, env, nil)
					text := fmt.Sprintf("let %s := List.map (fun %s : bytes => %s) %s in\n", name, xv.coq, f.text, l.p())
					return gsBinds(l.binds, text+c.stmts(rest[1:], env, k))
				}
			}
		}
	}
	e := c.expr(x.Rhs[0], env)
	ty := gsConcrete(e.ty)
	if ty == gsTByte {
		g.fail(x.Pos(), "a byte variable is outside the fragment")
	}
	name := c.lhs(x.Lhs[0], x.Tok, ty, env, func(v *gsVar) { v.small, v.lit, v.ilit = e.small, nil, nil })
	if n := len(e.binds); n > 0 && e.text == e.binds[n-1].name && name != "_" {
		// x := f(..) with f partial: bind the variable directly
		binds := append(append([]gsBind{}, e.binds[:n-1]...), gsBind{name, e.binds[n-1].rhs})
		return gsBinds(binds, c.stmts(rest, env, k))
	}
	return gsBinds(e.binds, fmt.Sprintf("let %s := %s in\n", name, e.text)+c.stmts(rest, env, k))
}

func (c *gsCtx) atoi(x *ast.AssignStmt, call *ast.CallExpr, rest []ast.Stmt, env *gsEnv, k gsCont) string {
	g := c.g
	const shape = "strconv.Atoi: only `x, err = strconv.Atoi(e)` immediately followed by `if err != nil { ... return ... }` is in the fragment"
	if len(x.Lhs) != 2 || len(call.Args) != 1 || len(rest) == 0 {
		g.fail(x.Pos(), shape)
	}
	errName, ok := gsIdent(x.Lhs[1])
	if !ok || errName == "_" {
		g.fail(x.Pos(), shape+" (the error is discarded)")
	}
	chk, ok := rest[0].(*ast.IfStmt)
	if !ok || chk.Init != nil || chk.Else != nil || !gsTerminates(chk.Body.List) {
		g.fail(rest[0].Pos(), shape)
	}
	be, ok := chk.Cond.(*ast.BinaryExpr)
	if !ok || be.Op != token.NEQ {
		g.fail(chk.Cond.Pos(), shape)
	}
	l, ok1 := gsIdent(be.X)
	r, ok2 := gsIdent(be.Y)
	if !ok1 || !ok2 || l != errName || r != "nil" {
		g.fail(chk.Cond.Pos(), shape)
	}
	if _, shadowed := env.vars["nil"]; shadowed {
		g.fail(chk.Cond.Pos(), "nil is shadowed")
	}
	arg := c.coerce(c.expr(call.Args[0], env), gsTString, call.Pos())
	// the error variable
	if x.Tok == token.DEFINE {
		if _, exists := env.vars[errName]; exists {
			g.fail(x.Lhs[1].Pos(), "`%s :=` redeclares or shadows a visible variable: outside the fragment", errName)
		}
		env.declare(errName, &gsVar{coq: gsCoqIdent(errName), ty: gsTError})
	} else if v, exists := env.vars[errName]; !exists || v.ty != gsTError {
		g.fail(x.Lhs[1].Pos(), "%s is not a variable of type error", errName)
	}
	// the error branch: the value Go leaves in x is not modelled, so x must not be read there
	errEnv := env.clone()
	xName, ok := gsIdent(x.Lhs[0])
	if !ok {
		g.fail(x.Lhs[0].Pos(), shape)
	}
	if xName != "_" {
		if x.Tok == token.DEFINE {
			if _, exists := env.vars[xName]; exists {
				g.fail(x.Lhs[0].Pos(), "`%s :=` redeclares or shadows a visible variable: outside the fragment", xName)
			}
			errEnv.declare(xName, &gsVar{coq: gsCoqIdent(xName), ty: gsTInt, dead: true})
		} else {
			v, exists := errEnv.vars[xName]
			if !exists || v.ty != gsTInt {
				g.fail(x.Lhs[0].Pos(), "%s is not an int variable", xName)
			}
			v.dead = true
		}
	}
	errText := c.stmts(chk.Body.List, errEnv, nil)
	binder := c.lhs(x.Lhs[0], x.Tok, gsTInt, env, func(v *gsVar) { v.small = false })
	okText := c.stmts(rest[1:], env, k)
	return gsBinds(arg.binds, fmt.Sprintf("match atoi %s with\n| None =>\n%s\n| Some %s =>\n%s\nend", arg.p(), gsIndent(errText, 2), binder, gsIndent(okText, 2)))
}

func (c *gsCtx) decl(x *ast.DeclStmt, rest []ast.Stmt, env *gsEnv, k gsCont) string {
	g := c.g
	gd, ok := x.Decl.(*ast.GenDecl)
	if !ok || (gd.Tok != token.VAR && gd.Tok != token.CONST) {
		g.fail(x.Pos(), "local declaration of this kind is outside the fragment")
	}
	var b strings.Builder
	for _, sp := range gd.Specs {
		vs := sp.(*ast.ValueSpec)
		var ty gsType
		if vs.Type != nil {
			ty = g.typeOf(vs.Type)
		}
		if len(vs.Values) != 0 && len(vs.Values) != len(vs.Names) {
			g.fail(vs.Pos(), "declaration from a multi-valued expression is outside the fragment")
		}
		for i, n := range vs.Names {
			if n.Name == "_" {
				g.fail(n.Pos(), "blank declaration")
			}
			if len(vs.Values) == 0 {
				if gd.Tok == token.CONST {
					g.fail(n.Pos(), "constant without a value (iota/implicit repetition) is outside the fragment")
				}
				if ty == gsTError {
					c.lhs(n, token.DEFINE, gsTError, env, nil)
					continue
				}
				zero := map[gsType]string{gsTString: "[]", gsTInt: "0%Z", gsTBool: "false", gsTStrList: "[]"}[ty]
				name := c.lhs(n, token.DEFINE, ty, env, func(v *gsVar) { v.small = ty == gsTInt })
				fmt.Fprintf(&b, "let %s : %s := %s in\n", name, ty.coq(), zero)
				continue
			}
			e := c.expr(vs.Values[i], env)
			t := gsConcrete(e.ty)
			if vs.Type != nil {
				e = c.coerce(e, ty, vs.Values[i].Pos())
				t = ty
			}
			if t == gsTByte || t == gsTError {
				g.fail(n.Pos(), "a variable of type %s is outside the fragment", t)
			}
			if gd.Tok == token.CONST && e.lit == nil && e.ilit == nil {
				g.fail(n.Pos(), "constant %s is not a literal string or integer", n.Name)
			}
			isConst := gd.Tok == token.CONST
			name := c.lhs(n, token.DEFINE, t, env, func(v *gsVar) {
				v.small = e.small
				if isConst {
					v.lit, v.ilit, v.konst = e.lit, e.ilit, true
				}
			})
			if len(e.binds) > 0 {
				// keep evaluation order: earlier lets of this declaration are already in b
				b.WriteString(gsBinds(e.binds, ""))
			}
			fmt.Fprintf(&b, "let %s := %s in\n", name, e.text)
		}
	}
	return b.String() + c.stmts(rest, env, k)
}

// for _, e := range L { acc = append(acc, f(e)) }   ==>   acc := acc ++ List.map (fun e => f e) L
func (c *gsCtx) rangeMap(x *ast.RangeStmt, rest []ast.Stmt, env *gsEnv, k gsCont) string {
	g := c.g
	const shape = "for: only `for _, x := range l { acc = append(acc, f(x)) }` is in the fragment"
	if x.Tok != token.DEFINE || x.Key == nil || x.Value == nil || len(x.Body.List) != 1 {
		g.fail(x.Pos(), shape)
	}
	if kn, ok := gsIdent(x.Key); !ok || kn != "_" {
		g.fail(x.Key.Pos(), shape+" (the index is used)")
	}
	vn, ok := gsIdent(x.Value)
	if !ok || vn == "_" {
		g.fail(x.Value.Pos(), shape)
	}
	if _, exists := env.vars[vn]; exists {
		g.fail(x.Value.Pos(), "loop variable %s shadows a visible variable: outside the fragment", vn)
	}
	l := c.coerce(c.expr(x.X, env), gsTStrList, x.X.Pos())
	as, ok := x.Body.List[0].(*ast.AssignStmt)
	if !ok || as.Tok != token.ASSIGN || len(as.Lhs) != 1 || len(as.Rhs) != 1 {
		g.fail(x.Body.Pos(), shape)
	}
	acc, ok := gsIdent(as.Lhs[0])
	if !ok {
		g.fail(as.Pos(), shape)
	}
	av, exists := env.vars[acc]
	if !exists || av.ty != gsTStrList {
		g.fail(as.Pos(), shape+" (acc must be a []string variable)")
	}
	call, ok := as.Rhs[0].(*ast.CallExpr)
	if !ok || len(call.Args) != 2 || call.Ellipsis.IsValid() {
		g.fail(as.Pos(), shape)
	}
	if fn, ok := gsIdent(call.Fun); !ok || fn != "append" {
		g.fail(as.Pos(), shape)
	}
	if _, shadowed := env.vars["append"]; shadowed {
		g.fail(as.Pos(), "append is shadowed")
	}
	if a0, ok := gsIdent(call.Args[0]); !ok || a0 != acc {
		g.fail(as.Pos(), shape+" (append to another slice)")
	}
	benv := env.clone()
	delete(benv.vars, acc) // f must not mention the accumulator
	for i, n := range benv.order {
		if n == acc {
			benv.order = append(benv.order[:i:i], benv.order[i+1:]...)
			break
		}
	}
	xv := &gsVar{coq: gsCoqIdent(vn), ty: gsTString}
	benv.declare(vn, xv)
	f := c.coerce(c.expr(call.Args[1], benv), gsTString, call.Args[1].Pos())
	if len(f.binds) > 0 {
		g.fail(call.Args[1].Pos(), "a possibly panicking expression inside the loop is outside the fragment")
	}
	text := fmt.Sprintf("let %s := %s ++ List.map (fun %s : bytes => %s) %s in\n", av.coq, av.coq, xv.coq, f.text, l.p())
	return gsBinds(l.binds, text+c.stmts(rest, env, k))
}

// gsInPlaceMap recognises `for i := range l { l[i] = E }` where E mentions l and i only as l[i]; it returns E with
// every l[i] replaced by a fresh identifier.
func gsInPlaceMap(l string, rs *ast.RangeStmt) (elem string, body ast.Expr, ok bool) {
	if rs.Tok != token.DEFINE || rs.Key == nil || rs.Value != nil || len(rs.Body.List) != 1 {
		return
	}
	in, isId := gsIdent(rs.Key)
	if xn, isX := gsIdent(rs.X); !isId || in == "_" || !isX || xn != l {
		return
	}
	as, isAs := rs.Body.List[0].(*ast.AssignStmt)
	if !isAs || as.Tok != token.ASSIGN || len(as.Lhs) != 1 || len(as.Rhs) != 1 {
		return
	}
	isElem := func(e ast.Expr) bool {
		ix, isIx := e.(*ast.IndexExpr)
		if !isIx {
			return false
		}
		a, okA := gsIdent(ix.X)
		b, okB := gsIdent(ix.Index)
		return okA && okB && a == l && b == in
	}
	if !isElem(as.Lhs[0]) {
		return
	}
	elem = l + "_elem"
	good := true
	var sub func(e ast.Expr) ast.Expr
	sub = func(e ast.Expr) ast.Expr {
		if isElem(e) {
			return &ast.Ident{NamePos: e.Pos(), Name: elem}
		}
		switch y := e.(type) {
		case *ast.Ident:
			if y.Name == l || y.Name == in || y.Name == elem {
				good = false // the slice or the index used otherwise than as l[i]
			}
			return y
		case *ast.BasicLit:
			return y
		case *ast.ParenExpr:
			return &ast.ParenExpr{Lparen: y.Lparen, X: sub(y.X), Rparen: y.Rparen}
		case *ast.SelectorExpr:
			return &ast.SelectorExpr{X: sub(y.X), Sel: y.Sel}
		case *ast.CallExpr:
			if y.Ellipsis.IsValid() {
				good = false
				return y
			}
			n := &ast.CallExpr{Fun: sub(y.Fun), Lparen: y.Lparen, Rparen: y.Rparen}
			for _, a := range y.Args {
				n.Args = append(n.Args, sub(a))
			}
			return n
		case *ast.BinaryExpr:
			return &ast.BinaryExpr{X: sub(y.X), OpPos: y.OpPos, Op: y.Op, Y: sub(y.Y)}
		case *ast.UnaryExpr:
			return &ast.UnaryExpr{OpPos: y.OpPos, Op: y.Op, X: sub(y.X)}
		}
		good = false
		return e
	}
	body = sub(as.Rhs[0])
	return elem, body, good
}
