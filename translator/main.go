// Command translator re-reads /repo's Go source (syntactically: go/parser and
// go/ast only) and regenerates the Coq tables under coq/gen.  It is run by
// every check, so the proof obligations that mention these tables are
// re-checked against what the code says now.
//
//	translator -repo /repo -out /verif/coq/gen
//
// If a source file no longer has the shape expected here the program fails
// loudly; the caller treats that as a broken tie.
package main

import (
	"bytes"
	"flag"
	"fmt"
	"go/ast"
	"go/parser"
	"go/printer"
	"go/token"
	"os"
	"path/filepath"
	"sort"
	"strconv"
	"strings"
)

var fset = token.NewFileSet()

// die: the source no longer has the shape a generator expects.  Inside a generator (runGen) only that generator's
// tables are lost: its output files are replaced by files that do not compile, so exactly the properties whose theorems
// depend on them lose their tie; outside one the translator exits.
type genFailure struct{ msg string }

var inGen bool

func die(format string, a ...any) {
	msg := fmt.Sprintf(format, a...)
	if inGen {
		panic(genFailure{msg})
	}
	fmt.Fprintf(os.Stderr, "translator: "+msg+"\n")
	os.Exit(2)
}

var failedGens []string

func runGen(name, out string, outputs []string, f func()) {
	inGen = true
	defer func() {
		inGen = false
		if p := recover(); p != nil {
			gf, ok := p.(genFailure)
			if !ok {
				gf = genFailure{fmt.Sprintf("panic: %v", p)}
			}
			fmt.Fprintf(os.Stderr, "translator: FAILED generator %s: %s\n", name, gf.msg)
			failedGens = append(failedGens, name)
			for _, o := range outputs {
				var b bytes.Buffer
				clean := strings.NewReplacer("*)", "* )", "(*", "( *").Replace(gf.msg)
				fmt.Fprintf(&b, "(* TRANSLATION FAILED (%s): %s *)\nDefinition translation_failed := TRANSLATION_FAILED_the_source_no_longer_has_the_expected_shape.\n", name, clean)
				_ = os.WriteFile(filepath.Join(out, o), b.Bytes(), 0o644)
			}
		}
	}()
	f()
}

func parseFile(path string) *ast.File {
	f, err := parser.ParseFile(fset, path, nil, parser.ParseComments)
	if err != nil {
		die("parse %s: %v", path, err)
	}
	return f
}

// ---- constant blocks -----------------------------------------------------

type constEnv map[string]int64

func evalConst(e ast.Expr, env constEnv, iota int64) (int64, bool) {
	switch x := e.(type) {
	case *ast.BasicLit:
		switch x.Kind {
		case token.INT:
			v, err := strconv.ParseInt(strings.ReplaceAll(x.Value, "_", ""), 0, 64)
			if err != nil {
				return 0, false
			}
			return v, true
		case token.CHAR:
			s, err := strconv.Unquote(x.Value)
			if err != nil || len(s) != 1 {
				return 0, false
			}
			return int64(s[0]), true
		}
		return 0, false
	case *ast.Ident:
		if x.Name == "iota" {
			return iota, true
		}
		v, ok := env[x.Name]
		return v, ok
	case *ast.ParenExpr:
		return evalConst(x.X, env, iota)
	case *ast.CallExpr: // conversion T(x)
		if len(x.Args) == 1 {
			return evalConst(x.Args[0], env, iota)
		}
		return 0, false
	case *ast.SelectorExpr: // time.Second etc.
		if id, ok := x.X.(*ast.Ident); ok && id.Name == "time" {
			switch x.Sel.Name {
			case "Nanosecond":
				return 1, true
			case "Microsecond":
				return 1e3, true
			case "Millisecond":
				return 1e6, true
			case "Second":
				return 1e9, true
			case "Minute":
				return 60e9, true
			case "Hour":
				return 3600e9, true
			}
		}
		return 0, false
	case *ast.UnaryExpr:
		v, ok := evalConst(x.X, env, iota)
		if !ok {
			return 0, false
		}
		switch x.Op {
		case token.SUB:
			return -v, true
		case token.ADD:
			return v, true
		}
		return 0, false
	case *ast.BinaryExpr:
		a, ok1 := evalConst(x.X, env, iota)
		b, ok2 := evalConst(x.Y, env, iota)
		if !ok1 || !ok2 {
			return 0, false
		}
		switch x.Op {
		case token.ADD:
			return a + b, true
		case token.SUB:
			return a - b, true
		case token.MUL:
			return a * b, true
		case token.QUO:
			if b == 0 {
				return 0, false
			}
			return a / b, true
		case token.SHL:
			return a << uint(b), true
		case token.SHR:
			return a >> uint(b), true
		case token.OR:
			return a | b, true
		case token.AND:
			return a & b, true
		}
	}
	return 0, false
}

type namedConst struct {
	Name string
	Val  int64
}

// constsOf evaluates every integer constant of the file's const blocks.
func constsOf(path string, env constEnv) []namedConst {
	f := parseFile(path)
	var out []namedConst
	for _, d := range f.Decls {
		gd, ok := d.(*ast.GenDecl)
		if !ok || gd.Tok != token.CONST {
			continue
		}
		var last []ast.Expr
		for i, s := range gd.Specs {
			vs := s.(*ast.ValueSpec)
			vals := vs.Values
			if len(vals) == 0 {
				vals = last
			} else {
				last = vals
			}
			for j, n := range vs.Names {
				if j >= len(vals) {
					continue
				}
				v, ok := evalConst(vals[j], env, int64(i))
				if !ok {
					continue
				}
				if n.Name != "_" {
					env[n.Name] = v
					out = append(out, namedConst{n.Name, v})
				}
			}
		}
	}
	return out
}

func coqName(s string) string {
	r := strings.NewReplacer(".", "_", "-", "_")
	return r.Replace(s)
}

// coqStr renders s as a Coq string literal.
func coqStr(s string) string {
	return "\"" + strings.ReplaceAll(s, "\"", "\"\"") + "\""
}

func coqZ(v int64) string {
	if v < 0 {
		return fmt.Sprintf("(%d)", v)
	}
	return fmt.Sprintf("%d", v)
}

func writeFile(dir, name string, b *bytes.Buffer) {
	path := filepath.Join(dir, name)
	old, err := os.ReadFile(path)
	if err == nil && bytes.Equal(old, b.Bytes()) {
		return // keep the timestamp: nothing depending on it is rebuilt
	}
	if err := os.WriteFile(path, b.Bytes(), 0o644); err != nil {
		die("write %s: %v", path, err)
	}
}

func header(b *bytes.Buffer, what string) {
	fmt.Fprintf(b, "(* GENERATED by /verif/translator from /repo — do not edit. %s *)\n", what)
	b.WriteString("From Coq Require Import List NArith ZArith String.\nImport ListNotations.\nLocal Open Scope N_scope.\nLocal Open Scope string_scope.\n\n")
}

func need(cs []namedConst, names ...string) {
	have := map[string]bool{}
	for _, c := range cs {
		have[c.Name] = true
	}
	for _, n := range names {
		if !have[n] {
			die("expected constant %s not found", n)
		}
	}
}

// ---- gate signatures -----------------------------------------------------

type sigTok struct {
	Gates []string
	Prim  string
}

type sigWalker struct {
	bufName, rdName string
	out             []sigTok
}

func exprText(e ast.Expr) string {
	var b bytes.Buffer
	_ = printer.Fprint(&b, fset, e)
	return strings.Join(strings.Fields(b.String()), " ")
}

// splitCond returns the conjuncts of a condition.
func splitCond(e ast.Expr) []ast.Expr {
	if p, ok := e.(*ast.ParenExpr); ok {
		return splitCond(p.X)
	}
	if be, ok := e.(*ast.BinaryExpr); ok && be.Op == token.LAND {
		return append(splitCond(be.X), splitCond(be.Y)...)
	}
	return []ast.Expr{e}
}

// featureOf recognises FeatureX.In(v) / proto.FeatureX.In(v), possibly negated.
func featureOf(e ast.Expr) (string, bool) {
	neg := false
	if u, ok := e.(*ast.UnaryExpr); ok && u.Op == token.NOT {
		neg = true
		e = u.X
	}
	call, ok := e.(*ast.CallExpr)
	if !ok {
		return "", false
	}
	sel, ok := call.Fun.(*ast.SelectorExpr)
	if !ok || sel.Sel.Name != "In" {
		return "", false
	}
	var name string
	switch x := sel.X.(type) {
	case *ast.Ident:
		name = x.Name
	case *ast.SelectorExpr:
		name = x.Sel.Name
	}
	if !strings.HasPrefix(name, "Feature") {
		return "", false
	}
	if neg {
		return "!" + name, true
	}
	return name, true
}

func hasFeature(e ast.Expr) bool {
	for _, c := range splitCond(e) {
		if _, ok := featureOf(c); ok {
			return true
		}
	}
	return false
}

func (w *sigWalker) calls(n ast.Node, gates []string) {
	if n == nil {
		return
	}
	ast.Inspect(n, func(x ast.Node) bool {
		switch c := x.(type) {
		case *ast.FuncLit:
			return true
		case *ast.CallExpr:
			sel, ok := c.Fun.(*ast.SelectorExpr)
			if !ok {
				return true
			}
			recv := exprText(sel.X)
			m := sel.Sel.Name
			argIs := func(name string) bool {
				for _, a := range c.Args {
					if id, ok := a.(*ast.Ident); ok && id.Name == name {
						return true
					}
				}
				return false
			}
			g := append([]string(nil), gates...)
			switch {
			case recv == w.bufName && strings.HasPrefix(m, "Put"):
				w.out = append(w.out, sigTok{g, m})
			case recv == w.rdName && w.rdName != "":
				w.out = append(w.out, sigTok{g, m})
			case (m == "Encode" || m == "EncodeAware") && argIs(w.bufName) && w.bufName != "":
				w.out = append(w.out, sigTok{g, "call:" + recv})
			case (m == "Decode" || m == "DecodeAware") && argIs(w.rdName) && w.rdName != "":
				w.out = append(w.out, sigTok{g, "call:" + recv})
			case recv == "bswap" && m == "Swap64":
				w.out = append(w.out, sigTok{g, "Swap64"})
			}
		}
		return true
	})
}

func (w *sigWalker) stmts(list []ast.Stmt, gates []string) {
	for _, s := range list {
		w.stmt(s, gates)
	}
}

func (w *sigWalker) stmt(s ast.Stmt, gates []string) {
	switch x := s.(type) {
	case *ast.BlockStmt:
		w.stmts(x.List, gates)
	case *ast.IfStmt:
		if x.Init != nil {
			w.stmt(x.Init, gates)
		}
		if hasFeature(x.Cond) {
			g := append([]string(nil), gates...)
			for _, c := range splitCond(x.Cond) {
				if f, ok := featureOf(c); ok {
					g = append(g, f)
				} else {
					g = append(g, "?"+exprText(c))
				}
			}
			w.stmt(x.Body, g)
			if x.Else != nil {
				w.stmt(x.Else, append(append([]string(nil), gates...), "else"))
			}
			return
		}
		w.calls(x.Cond, gates)
		w.stmt(x.Body, gates)
		if x.Else != nil {
			w.stmt(x.Else, gates)
		}
	case *ast.ForStmt:
		w.out = append(w.out, sigTok{append([]string(nil), gates...), "loop{"})
		w.stmt(x.Body, gates)
		w.out = append(w.out, sigTok{append([]string(nil), gates...), "}"})
	case *ast.RangeStmt:
		w.out = append(w.out, sigTok{append([]string(nil), gates...), "loop{"})
		w.stmt(x.Body, gates)
		w.out = append(w.out, sigTok{append([]string(nil), gates...), "}"})
	case *ast.SwitchStmt:
		if x.Init != nil {
			w.stmt(x.Init, gates)
		}
		w.calls(x.Tag, gates)
		for _, c := range x.Body.List {
			cc := c.(*ast.CaseClause)
			w.stmts(cc.Body, gates)
		}
	case nil:
	default:
		w.calls(s, gates)
	}
}

func recvType(fd *ast.FuncDecl) string {
	if fd.Recv == nil || len(fd.Recv.List) == 0 {
		return ""
	}
	t := fd.Recv.List[0].Type
	if st, ok := t.(*ast.StarExpr); ok {
		t = st.X
	}
	if ix, ok := t.(*ast.IndexExpr); ok {
		t = ix.X
	}
	if ix, ok := t.(*ast.IndexListExpr); ok {
		t = ix.X
	}
	if id, ok := t.(*ast.Ident); ok {
		return id.Name
	}
	return ""
}

func paramOfType(fd *ast.FuncDecl, typ string) string {
	for _, p := range fd.Type.Params.List {
		t := p.Type
		if st, ok := t.(*ast.StarExpr); ok {
			t = st.X
		}
		name := ""
		switch x := t.(type) {
		case *ast.Ident:
			name = x.Name
		case *ast.SelectorExpr:
			name = x.Sel.Name
		}
		if name == typ && len(p.Names) > 0 {
			return p.Names[0].Name
		}
	}
	return ""
}

func gateSigs(repo string, b *bytes.Buffer, features map[string]int64) {
	type target struct{ file, typ, fn string }
	targets := []target{
		{"proto/client_hello.go", "ClientHello", "Encode"}, {"proto/client_hello.go", "ClientHello", "Decode"},
		{"proto/server_hello.go", "ServerHello", "EncodeAware"}, {"proto/server_hello.go", "ServerHello", "DecodeAware"},
		{"proto/client_info.go", "ClientInfo", "EncodeAware"}, {"proto/client_info.go", "ClientInfo", "DecodeAware"},
		{"proto/query.go", "Query", "EncodeAware"}, {"proto/query.go", "Query", "DecodeAware"},
		{"proto/query.go", "Setting", "Encode"}, {"proto/query.go", "Setting", "Decode"},
		{"proto/query.go", "Parameter", "Encode"}, {"proto/query.go", "Parameter", "Decode"},
		{"proto/client_data.go", "ClientData", "EncodeAware"}, {"proto/client_data.go", "ClientData", "DecodeAware"},
		{"proto/progress.go", "Progress", "EncodeAware"}, {"proto/progress.go", "Progress", "DecodeAware"},
		{"proto/profile.go", "Profile", "EncodeAware"}, {"proto/profile.go", "Profile", "DecodeAware"},
		{"proto/exception.go", "Exception", "EncodeAware"}, {"proto/exception.go", "Exception", "DecodeAware"},
		{"proto/table_columns.go", "TableColumns", "EncodeAware"}, {"proto/table_columns.go", "TableColumns", "DecodeAware"},
		{"proto/block.go", "BlockInfo", "Encode"}, {"proto/block.go", "BlockInfo", "Decode"},
		{"proto/block.go", "Block", "EncodeAware"}, {"proto/block.go", "InputColumn", "EncodeStart"},
	}
	files := map[string]*ast.File{}
	for _, t := range targets {
		if files[t.file] == nil {
			files[t.file] = parseFile(filepath.Join(repo, t.file))
		}
		var fd *ast.FuncDecl
		for _, d := range files[t.file].Decls {
			if f, ok := d.(*ast.FuncDecl); ok && f.Name.Name == t.fn && recvType(f) == t.typ {
				fd = f
			}
		}
		if fd == nil {
			die("function %s.%s not found in %s", t.typ, t.fn, t.file)
		}
		w := &sigWalker{bufName: paramOfType(fd, "Buffer"), rdName: paramOfType(fd, "Reader")}
		if w.bufName == "" && w.rdName == "" {
			die("%s.%s: neither *Buffer nor *Reader parameter", t.typ, t.fn)
		}
		w.stmts(fd.Body.List, nil)
		fmt.Fprintf(b, "Definition sig_%s_%s : list (list N * string) := [\n", t.typ, t.fn)
		for i, tok := range w.out {
			var gs []string
			for _, g := range tok.Gates {
				switch {
				case strings.HasPrefix(g, "?"), g == "else":
					gs = append(gs, "0") // value-dependent condition: see DESIGN §3
				case strings.HasPrefix(g, "!"):
					v, ok := features[g[1:]]
					if !ok {
						die("unknown feature %s", g)
					}
					gs = append(gs, fmt.Sprintf("%d", 1000000+v)) // negated gate
				default:
					v, ok := features[g]
					if !ok {
						die("unknown feature %s", g)
					}
					gs = append(gs, fmt.Sprintf("%d", v))
				}
			}
			sep := ";"
			if i == len(w.out)-1 {
				sep = ""
			}
			fmt.Fprintf(b, "  ([%s], %s)%s\n", strings.Join(gs, "; "), coqStr(tok.Prim), sep)
		}
		b.WriteString("].\n\n")
	}
}

// ---- generated fixed-width codecs (C15) ------------------------------------

type codec struct {
	Col, TypeExpr           string
	Size                    int
	HasSafe, HasUnsafe      bool
	SafeTag, UnsafeTag      string
	SafeConv, SafeEnc       string
	SingleByte, DateTimeCol bool
}

func buildTag(f *ast.File) string {
	for _, cg := range f.Comments {
		for _, c := range cg.List {
			if strings.HasPrefix(c.Text, "//go:build ") {
				return strings.TrimPrefix(c.Text, "//go:build ")
			}
		}
	}
	return ""
}

func methodOf(f *ast.File, name string) *ast.FuncDecl {
	for _, d := range f.Decls {
		if fd, ok := d.(*ast.FuncDecl); ok && fd.Name.Name == name && fd.Recv != nil {
			return fd
		}
	}
	return nil
}

// sizeConst finds `const size = N` or `const size = B / 8` inside a function.
func sizeConst(fd *ast.FuncDecl) (int, bool) {
	found, val := false, 0
	ast.Inspect(fd, func(n ast.Node) bool {
		gd, ok := n.(*ast.GenDecl)
		if !ok || gd.Tok != token.CONST {
			return true
		}
		for _, s := range gd.Specs {
			vs := s.(*ast.ValueSpec)
			for i, nm := range vs.Names {
				if nm.Name == "size" && i < len(vs.Values) {
					if v, ok := evalConst(vs.Values[i], constEnv{}, 0); ok {
						found, val = true, int(v)
					}
				}
			}
		}
		return true
	})
	return val, found
}

func codecs(repo string, b *bytes.Buffer) {
	matches, _ := filepath.Glob(filepath.Join(repo, "proto", "col_*_safe_gen.go"))
	sort.Strings(matches)
	if len(matches) < 30 {
		die("expected at least 30 generated safe codecs, found %d", len(matches))
	}
	b.WriteString("(* (column type, element size in bytes, has unsafe variant, safe build tag, unsafe build tag,\n    safe decode element expression, safe encode element expression) *)\n")
	b.WriteString("Definition codec_table : list (string * N * bool * string * string * string * string) := [\n")
	for i, m := range matches {
		sf := parseFile(m)
		dec := methodOf(sf, "DecodeColumn")
		enc := methodOf(sf, "EncodeColumn")
		if dec == nil || enc == nil {
			die("%s: DecodeColumn/EncodeColumn not found", m)
		}
		col := recvType(dec)
		size, ok := sizeConst(dec)
		if !ok {
			size = 1
		}
		if esize, ok := sizeConst(enc); ok && esize != size {
			die("%s: encode size %d != decode size %d", m, esize, size)
		}
		// element conversion expressions: the argument of append(v, ...) in decode,
		// the last argument of the put call in encode
		conv := ""
		ast.Inspect(dec, func(n ast.Node) bool {
			if c, ok := n.(*ast.CallExpr); ok {
				if id, ok := c.Fun.(*ast.Ident); ok && id.Name == "append" && len(c.Args) == 2 && c.Ellipsis == token.NoPos {
					conv = exprText(c.Args[1])
				}
			}
			if as, ok := n.(*ast.AssignStmt); ok && len(as.Lhs) == 1 && conv == "" {
				if ix, ok := as.Lhs[0].(*ast.IndexExpr); ok && exprText(ix.X) == "v" {
					conv = "v[i]=" + exprText(as.Rhs[0])
				}
			}
			return true
		})
		encx := ""
		ast.Inspect(enc, func(n ast.Node) bool {
			if c, ok := n.(*ast.CallExpr); ok {
				t := exprText(c.Fun)
				if strings.HasPrefix(t, "binary.LittleEndian.Put") || strings.HasPrefix(t, "binPut") || t == "copy" {
					encx = t + "(" + exprText(c.Args[len(c.Args)-1]) + ")"
				}
			}
			if as, ok := n.(*ast.AssignStmt); ok && len(as.Lhs) == 1 && encx == "" {
				if ix, ok := as.Lhs[0].(*ast.IndexExpr); ok && strings.HasPrefix(exprText(ix.X), "b.Buf") {
					encx = "b.Buf[i+start]=" + exprText(as.Rhs[0])
				}
			}
			return true
		})
		um := strings.Replace(m, "_safe_gen.go", "_unsafe_gen.go", 1)
		hasUnsafe := false
		utag := ""
		if _, err := os.Stat(um); err == nil {
			hasUnsafe = true
			uf := parseFile(um)
			utag = buildTag(uf)
			udec := methodOf(uf, "DecodeColumn")
			if udec == nil {
				die("%s: DecodeColumn not found", um)
			}
			usize, ok := sizeConst(udec)
			if !ok {
				usize = 1
			}
			if usize != size {
				die("%s: unsafe element size %d differs from safe %d", um, usize, size)
			}
		}
		sep := ";"
		if i == len(matches)-1 {
			sep = ""
		}
		hb := "false"
		if hasUnsafe {
			hb = "true"
		}
		fmt.Fprintf(b, "  (%s, %d, %s, %s, %s, %s, %s)%s\n", coqStr(col), size, hb, coqStr(buildTag(sf)), coqStr(utag), coqStr(conv), coqStr(encx), sep)
	}
	b.WriteString("].\n")
}

// ---- inferGenerated table ---------------------------------------------------

func inferTable(repo string, b *bytes.Buffer) {
	f := parseFile(filepath.Join(repo, "proto", "col_auto_gen.go"))
	var fd *ast.FuncDecl
	for _, d := range f.Decls {
		if x, ok := d.(*ast.FuncDecl); ok && x.Name.Name == "inferGenerated" {
			fd = x
		}
	}
	if fd == nil {
		die("inferGenerated not found")
	}
	b.WriteString("Definition infer_table : list (string * string) := [\n")
	var rows []string
	ast.Inspect(fd, func(n ast.Node) bool {
		cc, ok := n.(*ast.CaseClause)
		if !ok || len(cc.List) != 1 || len(cc.Body) != 1 {
			return true
		}
		ret, ok := cc.Body[0].(*ast.ReturnStmt)
		if !ok {
			return true
		}
		rows = append(rows, fmt.Sprintf("  (%s, %s)", coqStr(exprText(cc.List[0])), coqStr(exprText(ret.Results[0]))))
		return true
	})
	if len(rows) < 20 {
		die("inferGenerated: only %d cases", len(rows))
	}
	b.WriteString(strings.Join(rows, ";\n"))
	b.WriteString("\n].\n")
}

// ---- method sets used by ColAuto.Infer's reflection -------------------------

func methodSets(repo string, b *bytes.Buffer) {
	files, _ := filepath.Glob(filepath.Join(repo, "proto", "col_*.go"))
	sort.Strings(files)
	type key struct{ typ, m string }
	have := map[key]bool{}
	types := map[string]bool{}
	for _, p := range files {
		if strings.HasSuffix(p, "_test.go") {
			continue
		}
		f := parseFile(p)
		for _, d := range f.Decls {
			fd, ok := d.(*ast.FuncDecl)
			if !ok || fd.Recv == nil {
				continue
			}
			t := recvType(fd)
			if !strings.HasPrefix(t, "Col") {
				continue
			}
			types[t] = true
			switch fd.Name.Name {
			case "Array", "Nullable", "LowCardinality":
				if fd.Type.Params.NumFields() == 0 && fd.Type.Results.NumFields() == 1 {
					have[key{t, fd.Name.Name}] = true
				}
			}
		}
	}
	var ts []string
	for t := range types {
		ts = append(ts, t)
	}
	sort.Strings(ts)
	b.WriteString("(* (column struct, has Array(), has Nullable(), has LowCardinality()) — declared directly on the type;\n    methods promoted from embedded structs are resolved in model/Infer.v *)\n")
	b.WriteString("Definition method_table : list (string * bool * bool * bool) := [\n")
	for i, t := range ts {
		sep := ";"
		if i == len(ts)-1 {
			sep = ""
		}
		fmt.Fprintf(b, "  (%s, %v, %v, %v)%s\n", coqStr(t), have[key{t, "Array"}], have[key{t, "Nullable"}], have[key{t, "LowCardinality"}], sep)
	}
	b.WriteString("].\n")
}

// extraGens are further generators registered from init() in other files of this package
// (one file per generated table), run after the built-in ones.
var extraGens []func(repo, out string)

// the files each extra generator writes, in registration order (registerGen keeps the two in step)
var extraGenOutputs [][]string

func registerGen(outputs []string, g func(repo, out string)) {
	extraGens = append(extraGens, g)
	extraGenOutputs = append(extraGenOutputs, outputs)
}

func main() {
	repo := flag.String("repo", "/repo", "ch-go source tree")
	out := flag.String("out", "", "output directory (coq/gen)")
	flag.Parse()
	if *out == "" {
		die("-out required")
	}
	if err := os.MkdirAll(*out, 0o755); err != nil {
		die("%v", err)
	}

	// Features.v (everything depends on it: a failure here is a failure of the whole translation)
	env := constEnv{}
	feats := constsOf(filepath.Join(*repo, "proto/feature.go"), env)
	if len(feats) < 20 {
		die("proto/feature.go: only %d constants", len(feats))
	}
	featMap := map[string]int64{}
	{
		var b bytes.Buffer
		header(&b, "proto/feature.go")
		for _, c := range feats {
			fmt.Fprintf(&b, "Definition %s : N := %d.\n", c.Name, c.Val)
			featMap[c.Name] = c.Val
		}
		b.WriteString("\nDefinition feature_table : list (string * N) := [\n")
		for i, c := range feats {
			sep := ";"
			if i == len(feats)-1 {
				sep = ""
			}
			fmt.Fprintf(&b, "  (%s, %s)%s\n", coqStr(c.Name), c.Name, sep)
		}
		b.WriteString("].\n")
		writeFile(*out, "Features.v", &b)
	}

	// Codes.v
	runGen("Codes", *out, []string{"Codes.v"}, func() {
		var b bytes.Buffer
		header(&b, "packet codes, stages, compression, bool, low-cardinality constants")
		for _, f := range []string{
			"proto/client_code.go", "proto/server_code.go", "proto/stage.go", "proto/compression.go",
			"proto/bool.go", "proto/col_low_cardinality.go", "proto/client_info.go", "proto/query.go",
			"proto/profile_events.go", "proto/col_interval.go", "proto/col_json_str.go",
		} {
			e := constEnv{}
			cs := constsOf(filepath.Join(*repo, f), e)
			fmt.Fprintf(&b, "(* %s *)\n", f)
			for _, c := range cs {
				fmt.Fprintf(&b, "Definition %s : Z := %s%%Z.\n", coqName(c.Name), coqZ(c.Val))
			}
		}
		// all server / client codes as lists, for the distinctness obligations
		e := constEnv{}
		sc := constsOf(filepath.Join(*repo, "proto/server_code.go"), e)
		b.WriteString("\nDefinition server_codes : list Z := [")
		for i, c := range sc {
			if i > 0 {
				b.WriteString("; ")
			}
			b.WriteString(coqName(c.Name))
		}
		b.WriteString("]%Z.\n")
		e = constEnv{}
		cc := constsOf(filepath.Join(*repo, "proto/client_code.go"), e)
		b.WriteString("Definition client_codes : list Z := [")
		for i, c := range cc {
			if i > 0 {
				b.WriteString("; ")
			}
			b.WriteString(coqName(c.Name))
		}
		b.WriteString("]%Z.\n")
		need(sc, "ServerCodeHello", "ServerCodeData", "ServerCodeException", "ServerCodeEndOfStream", "ServerProfileEvents")
		need(cc, "ClientCodeHello", "ClientCodeQuery", "ClientCodeData", "ClientCodeCancel", "ClientCodePing")
		writeFile(*out, "Codes.v", &b)
	})

	// Consts.v
	runGen("Consts", *out, []string{"Consts.v"}, func() {
		var b bytes.Buffer
		header(&b, "size caps, frame layout, defaults")
		for _, fp := range [][2]string{{"proto/block.go", ""}, {"compress/compress.go", "cmp_"}, {"proto/reader.go", ""}, {"proto/proto.go", "proto_"}, {"client.go", "ch_"}, {"chpool/pool.go", "pool_"}, {"proto/date.go", ""}, {"proto/datetime64.go", ""}} {
			f, prefix := fp[0], fp[1]
			e := constEnv{}
			cs := constsOf(filepath.Join(*repo, f), e)
			fmt.Fprintf(&b, "(* %s *)\n", f)
			for _, c := range cs {
				fmt.Fprintf(&b, "Definition %s%s : Z := %s%%Z.\n", prefix, coqName(c.Name), coqZ(c.Val))
			}
			switch f {
			case "proto/block.go":
				need(cs, "maxColumnsInBlock", "maxRowsInBLock", "blockInfoOverflows", "blockInfoBucketNum", "endField")
			case "compress/compress.go":
				need(cs, "checksumSize", "compressHeaderSize", "headerSize", "maxDataSize", "maxBlockSize", "hRawSize", "hDataSize", "hMethod", "encodedNone", "encodedLZ4", "encodedZSTD")
			}
		}
		// methodEncoding bytes are typed constants in compress/compress.go: covered above.
		writeFile(*out, "Consts.v", &b)
	})

	// GateSig.v
	runGen("GateSig", *out, []string{"GateSig.v"}, func() {
		var b bytes.Buffer
		header(&b, "sequence of (feature gates, primitive call) of every Encode/Decode pair")
		gateSigs(*repo, &b, featMap)
		writeFile(*out, "GateSig.v", &b)
	})

	// Codecs.v
	runGen("Codecs", *out, []string{"Codecs.v"}, func() {
		var b bytes.Buffer
		header(&b, "generated fixed-width codecs (proto/col_*_safe_gen.go, col_*_unsafe_gen.go)")
		codecs(*repo, &b)
		writeFile(*out, "Codecs.v", &b)
	})

	// InferTable.v + Methods.v
	runGen("InferTable", *out, []string{"InferTable.v"}, func() {
		var b bytes.Buffer
		header(&b, "proto/col_auto_gen.go")
		inferTable(*repo, &b)
		writeFile(*out, "InferTable.v", &b)
	})
	runGen("Methods", *out, []string{"Methods.v"}, func() {
		var b bytes.Buffer
		header(&b, "Array/Nullable/LowCardinality helper methods found by ColAuto.Infer's reflection")
		methodSets(*repo, &b)
		writeFile(*out, "Methods.v", &b)
	})
	for i, g := range extraGens {
		g := g
		outs := extraGenOutputs[i]
		runGen(strings.Join(outs, "+"), *out, outs, func() { g(*repo, *out) })
	}
	if len(failedGens) > 0 {
		fmt.Printf("translator: %d generator(s) failed: %s\n", len(failedGens), strings.Join(failedGens, ", "))
	}
}
