package main

// C12: shared package state.
//
//	coq/gen/Globals.v
//	  package_vars     every package-level variable of the library packages (root, proto, compress, chpool, otelch)
//	  global_writes    every statement inside a function body (init excluded) that assigns to one of them, to a field or
//	                   element of one, increments it, takes its address, or deletes from it: (package, variable, function)
//
// A package-level variable that library code writes after initialisation is memory shared by every client of the
// process: two clients on two goroutines (a pool) reach it with no happens-before edge between them.  props/C12.v
// states that the table is empty.

import (
	"bytes"
	"fmt"
	"go/ast"
	"go/token"
	"os"
	"path/filepath"
	"sort"
	"strings"
)

func init() {
	registerGen([]string{"Globals.v"}, c12Globals)
}

func c12Globals(repo, out string) {
	pkgs := []string{".", "proto", "compress", "chpool", "otelch"}
	var vars, writes []string
	for _, pkg := range pkgs {
		dir := filepath.Join(repo, pkg)
		ents, err := os.ReadDir(dir)
		if err != nil {
			die("globals: %v", err)
		}
		var files []*ast.File
		for _, e := range ents {
			n := e.Name()
			if e.IsDir() || !strings.HasSuffix(n, ".go") || strings.HasSuffix(n, "_test.go") {
				continue
			}
			files = append(files, parseFile(filepath.Join(dir, n)))
		}
		pv := map[string]bool{}
		for _, f := range files {
			for _, d := range f.Decls {
				gd, ok := d.(*ast.GenDecl)
				if !ok || gd.Tok != token.VAR {
					continue
				}
				for _, s := range gd.Specs {
					for _, id := range s.(*ast.ValueSpec).Names {
						if id.Name != "_" {
							pv[id.Name] = true
						}
					}
				}
			}
		}
		var names []string
		for n := range pv {
			names = append(names, n)
		}
		sort.Strings(names)
		for _, n := range names {
			vars = append(vars, fmt.Sprintf("  (%s, %s)", coqStr(pkg), coqStr(n)))
		}
		seen := map[string]bool{}
		for _, f := range files {
			for _, d := range f.Decls {
				fd, ok := d.(*ast.FuncDecl)
				if !ok || fd.Body == nil || (fd.Recv == nil && fd.Name.Name == "init") {
					continue
				}
				fn := fd.Name.Name
				if fd.Recv != nil {
					fn = recvType(fd) + "." + fn
				}
				for _, v := range globalWritesIn(fd, pv) {
					k := pkg + "|" + v + "|" + fn
					if !seen[k] {
						seen[k] = true
						writes = append(writes, fmt.Sprintf("  (%s, %s, %s)", coqStr(pkg), coqStr(v), coqStr(fn)))
					}
				}
			}
		}
	}
	if len(vars) < 20 {
		die("globals: only %d package-level variables found", len(vars))
	}
	var b bytes.Buffer
	header(&b, "package-level variables of the library and the statements in function bodies that write them (C12)")
	b.WriteString("Definition package_vars : list (string * string) := [\n" + strings.Join(vars, ";\n") + "\n].\n\n")
	b.WriteString("Definition global_writes : list (string * string * string) := [\n" + strings.Join(writes, ";\n") + "\n].\n")
	writeFile(out, "Globals.v", &b)
}

// rootIdent: x, x.f, x[i], *x, (x) -> x
func rootIdent(e ast.Expr) *ast.Ident {
	for {
		switch t := e.(type) {
		case *ast.Ident:
			return t
		case *ast.SelectorExpr:
			e = t.X
		case *ast.IndexExpr:
			e = t.X
		case *ast.StarExpr:
			e = t.X
		case *ast.ParenExpr:
			e = t.X
		case *ast.SliceExpr:
			e = t.X
		default:
			return nil
		}
	}
}

// globalWritesIn: names of package-level variables written in the body of fd.  An identifier denotes the package-level
// variable unless the parser resolved it to a declaration inside the function (parameters, receivers, := and var).
func globalWritesIn(fd *ast.FuncDecl, pv map[string]bool) []string {
	var out []string
	isGlobal := func(id *ast.Ident) bool {
		if id == nil || !pv[id.Name] {
			return false
		}
		if id.Obj != nil && id.Obj.Pos() >= fd.Pos() && id.Obj.Pos() <= fd.End() {
			return false // a local of the same name
		}
		return true
	}
	ast.Inspect(fd, func(n ast.Node) bool {
		switch t := n.(type) {
		case *ast.AssignStmt:
			if t.Tok == token.DEFINE {
				return true
			}
			for _, l := range t.Lhs {
				if id := rootIdent(l); isGlobal(id) {
					out = append(out, id.Name)
				}
			}
		case *ast.IncDecStmt:
			if id := rootIdent(t.X); isGlobal(id) {
				out = append(out, id.Name)
			}
		case *ast.UnaryExpr:
			if t.Op == token.AND {
				if id := rootIdent(t.X); isGlobal(id) {
					out = append(out, id.Name)
				}
			}
		case *ast.CallExpr:
			if f, ok := t.Fun.(*ast.Ident); ok && (f.Name == "delete" || f.Name == "clear") && len(t.Args) > 0 {
				if id := rootIdent(t.Args[0]); isGlobal(id) {
					out = append(out, id.Name)
				}
			}
		case *ast.RangeStmt:
			if t.Tok == token.ASSIGN {
				for _, l := range []ast.Expr{t.Key, t.Value} {
					if l != nil {
						if id := rootIdent(l); isGlobal(id) {
							out = append(out, id.Name)
						}
					}
				}
			}
		}
		return true
	})
	return out
}
