package main

// gostr_expr.go — expressions of the MiniGo-strings fragment (see gostr.go).

import (
	"fmt"
	"go/ast"
	"go/token"
	"strconv"
	"strings"
)

type gsBind struct{ name, rhs string }

// a translated expression: `binds` (partial sub-expressions, in evaluation order) then the total term `text`
type gsExpr struct {
	binds []gsBind
	text  string
	ty    gsType
	small bool
	lit   *string // constant string value
	ilit  *int64  // constant integer value
	atom  bool    // text needs no parentheses
}

type gsCtx struct {
	g     *gs
	f     *gsFunc
	ntmp  int
	njoin int
}

func (c *gsCtx) fresh(prefix string) string {
	c.ntmp++
	return fmt.Sprintf("gs_%s%d", prefix, c.ntmp)
}

func (e gsExpr) p() string {
	if e.atom {
		return e.text
	}
	return "(" + e.text + ")"
}

// coerce an untyped constant to the type it is used at
func (c *gsCtx) coerce(e gsExpr, want gsType, pos token.Pos) gsExpr {
	switch {
	case e.ty == want:
	case e.ty == gsTUStr && want == gsTString:
		e.ty = gsTString
	case e.ty == gsTUInt && want == gsTInt:
		e.ty = gsTInt
	default:
		c.g.fail(pos, "type mismatch: %s used as %s", e.ty, want)
	}
	return e
}

// unify the operand types of a binary operator
func (c *gsCtx) unify(a, b gsExpr, pos token.Pos) (gsExpr, gsExpr) {
	base := func(t gsType) gsType {
		switch t {
		case gsTUStr:
			return gsTString
		case gsTUInt:
			return gsTInt
		}
		return t
	}
	if base(a.ty) != base(b.ty) {
		c.g.fail(pos, "operands of different types: %s and %s", a.ty, b.ty)
	}
	t := base(a.ty)
	return c.coerce(a, t, pos), c.coerce(b, t, pos)
}

func (c *gsCtx) expr(e ast.Expr, env *gsEnv) gsExpr {
	g := c.g
	switch x := e.(type) {
	case *ast.ParenExpr:
		return c.expr(x.X, env)

	case *ast.BasicLit:
		switch x.Kind {
		case token.STRING:
			v, err := strconv.Unquote(x.Value)
			if err != nil {
				g.fail(x.Pos(), "string literal %s: %v", x.Value, err)
			}
			return gsExpr{text: gsBytesLit(v), ty: gsTUStr, lit: &v, atom: true}
		case token.CHAR:
			v, err := strconv.Unquote(x.Value)
			if err != nil || len(v) != 1 {
				g.fail(x.Pos(), "character literal %s is not one byte: outside the fragment", x.Value)
			}
			n := int64(v[0])
			return gsExpr{text: strconv.Itoa(int(v[0])), ty: gsTByte, atom: true, ilit: &n}
		case token.INT:
			v, err := strconv.ParseInt(strings.ReplaceAll(x.Value, "_", ""), 0, 64)
			if err != nil {
				g.fail(x.Pos(), "integer literal %s: %v", x.Value, err)
			}
			return gsIntLit(v)
		}
		g.fail(x.Pos(), "literal %s is outside the fragment", x.Value)

	case *ast.Ident:
		if v, ok := env.vars[x.Name]; ok {
			if v.ty == gsTError {
				g.fail(x.Pos(), "use of the error variable %s outside `x, err = strconv.Atoi(e); if err != nil { return }`", x.Name)
			}
			if v.dead {
				g.fail(x.Pos(), "%s is read after a failed strconv.Atoi: the value Go leaves there is not modelled", x.Name)
			}
			return gsExpr{text: v.coq, ty: v.ty, small: v.small, lit: v.lit, ilit: v.ilit, atom: true}
		}
		switch x.Name {
		case "true", "false":
			return gsExpr{text: x.Name, ty: gsTBool, atom: true}
		case "_":
			g.fail(x.Pos(), "blank identifier in an expression")
		}
		if v, ok := g.consts[x.Name]; ok {
			g.usedConst[x.Name] = true
			v := v
			return gsExpr{text: "ct " + coqStr(x.Name), ty: gsTString, lit: &v}
		}
		g.fail(x.Pos(), "identifier %s is not a local, a parameter or a string constant of %s", x.Name, gsFile)

	case *ast.UnaryExpr:
		switch x.Op {
		case token.NOT:
			a := c.coerce(c.expr(x.X, env), gsTBool, x.Pos())
			return gsExpr{binds: a.binds, text: "negb " + a.p(), ty: gsTBool}
		case token.SUB:
			a := c.expr(x.X, env)
			if a.ty == gsTUInt && a.ilit != nil {
				return gsIntLit(-*a.ilit)
			}
		}
		g.fail(x.Pos(), "unary %s is outside the fragment here", x.Op)

	case *ast.BinaryExpr:
		return c.binary(x, env)

	case *ast.SliceExpr:
		if x.Slice3 {
			g.fail(x.Pos(), "three-index slice is outside the fragment")
		}
		s := c.coerce(c.expr(x.X, env), gsTString, x.Pos())
		binds := s.binds
		lo, hi := "0%Z", "(Z.of_nat (length "+s.p()+"))"
		if x.Low != nil {
			l := c.coerce(c.expr(x.Low, env), gsTInt, x.Low.Pos())
			binds = append(binds, l.binds...)
			lo = gsZ(l)
		}
		if x.High != nil {
			h := c.coerce(c.expr(x.High, env), gsTInt, x.High.Pos())
			binds = append(binds, h.binds...)
			hi = gsZ(h)
		}
		if !c.f.partial {
			g.fail(x.Pos(), "internal: slice in a function classified total")
		}
		t := c.fresh("t")
		binds = append(binds, gsBind{t, fmt.Sprintf("go_slice %s %s %s", s.p(), lo, hi)})
		return gsExpr{binds: binds, text: t, ty: gsTString, atom: true}

	case *ast.CallExpr:
		return c.call(x, env)
	}
	g.fail(e.Pos(), "expression %s (%T) is outside the fragment", exprText(e), e)
	return gsExpr{}
}

func gsIntLit(v int64) gsExpr {
	small := v >= -65536 && v <= 65536
	return gsExpr{text: gsZlit(v), ty: gsTUInt, small: small, ilit: &v, atom: true}
}

func gsZlit(v int64) string {
	if v < 0 {
		return fmt.Sprintf("(%d)%%Z", v)
	}
	return fmt.Sprintf("%d%%Z", v)
}

// an integer term in Z scope
func gsZ(e gsExpr) string { return e.p() }

func (c *gsCtx) binary(x *ast.BinaryExpr, env *gsEnv) gsExpr {
	g := c.g
	a := c.expr(x.X, env)
	b := c.expr(x.Y, env)
	binds := append(append([]gsBind{}, a.binds...), b.binds...)
	switch x.Op {
	case token.LAND, token.LOR:
		a = c.coerce(a, gsTBool, x.X.Pos())
		b = c.coerce(b, gsTBool, x.Y.Pos())
		if len(b.binds) > 0 {
			g.fail(x.Y.Pos(), "a possibly panicking operand on the right of %s (evaluated conditionally) is outside the fragment", x.Op)
		}
		op := "&&"
		if x.Op == token.LOR {
			op = "||"
		}
		return gsExpr{binds: binds, text: a.p() + " " + op + " " + b.p(), ty: gsTBool}
	case token.EQL, token.NEQ:
		a, b = c.unify(a, b, x.Pos())
		var t string
		switch a.ty {
		case gsTString:
			t = "bytes_eqb " + a.p() + " " + b.p()
		case gsTInt:
			t = "Z.eqb " + a.p() + " " + b.p()
		case gsTBool:
			t = "Bool.eqb " + a.p() + " " + b.p()
		default:
			g.fail(x.Pos(), "%s on %s is outside the fragment", x.Op, a.ty)
		}
		if x.Op == token.NEQ {
			return gsExpr{binds: binds, text: "negb (" + t + ")", ty: gsTBool}
		}
		return gsExpr{binds: binds, text: t, ty: gsTBool}
	case token.LSS, token.LEQ, token.GTR, token.GEQ:
		a, b = c.unify(a, b, x.Pos())
		if a.ty != gsTInt {
			g.fail(x.Pos(), "%s on %s is outside the fragment", x.Op, a.ty)
		}
		var t string
		switch x.Op {
		case token.LSS:
			t = "Z.ltb " + a.p() + " " + b.p()
		case token.LEQ:
			t = "Z.leb " + a.p() + " " + b.p()
		case token.GTR:
			t = "Z.ltb " + b.p() + " " + a.p()
		case token.GEQ:
			t = "Z.leb " + b.p() + " " + a.p()
		}
		return gsExpr{binds: binds, text: t, ty: gsTBool}
	case token.ADD, token.SUB:
		a, b = c.unify(a, b, x.Pos())
		switch a.ty {
		case gsTInt:
			if !a.small || !b.small {
				g.fail(x.Pos(), "integer %s on an operand that is not index-like (IndexByte/LastIndexByte/len result, literal <= 65536, or a sum of those): outside the fragment, int is translated without wrap-around", x.Op)
			}
			op := "Z.add"
			if x.Op == token.SUB {
				op = "Z.sub"
			}
			return gsExpr{binds: binds, text: op + " " + a.p() + " " + b.p(), ty: gsTInt, small: true}
		case gsTString:
			if x.Op == token.ADD {
				return gsExpr{binds: binds, text: a.p() + " ++ " + b.p(), ty: gsTString}
			}
		}
	}
	g.fail(x.Pos(), "operator %s on %s is outside the fragment", x.Op, a.ty)
	return gsExpr{}
}

// a constant one-byte string (separator arguments)
func (c *gsCtx) oneByte(e ast.Expr, env *gsEnv, what string) string {
	a := c.expr(e, env)
	if a.lit == nil || len(a.binds) > 0 {
		c.g.fail(e.Pos(), "%s: the separator must be a constant string", what)
	}
	if len(*a.lit) != 1 {
		c.g.fail(e.Pos(), "%s: separator %q is not one byte: outside the fragment", what, *a.lit)
	}
	return strconv.Itoa(int((*a.lit)[0]))
}

func (c *gsCtx) args(call *ast.CallExpr, env *gsEnv, n int, what string) []gsExpr {
	if len(call.Args) != n || call.Ellipsis.IsValid() {
		c.g.fail(call.Pos(), "%s: %d argument(s) expected", what, n)
	}
	var out []gsExpr
	for _, a := range call.Args {
		out = append(out, c.expr(a, env))
	}
	return out
}

func gsAllBinds(es ...gsExpr) []gsBind {
	var out []gsBind
	for _, e := range es {
		out = append(out, e.binds...)
	}
	return out
}

func (c *gsCtx) call(call *ast.CallExpr, env *gsEnv) gsExpr {
	g := c.g
	isLocal := func(n string) bool { _, ok := env.vars[n]; return ok }

	// conversions and builtins
	if id, ok := call.Fun.(*ast.Ident); ok && !isLocal(id.Name) {
		switch {
		case id.Name == "string" || g.strTypes[id.Name]:
			a := c.args(call, env, 1, id.Name+"(...)")[0]
			a = c.coerce(a, gsTString, call.Pos())
			return a // the identity on byte strings
		case id.Name == "len":
			a := c.args(call, env, 1, "len")[0]
			a = c.coerce(a, gsTString, call.Pos())
			return gsExpr{binds: a.binds, text: "Z.of_nat (length " + a.p() + ")", ty: gsTInt, small: true}
		case id.Name == "append":
			g.fail(call.Pos(), "append outside `for _, x := range l { acc = append(acc, f(x)) }` is outside the fragment")
		}
	}

	// library primitives
	if sel, ok := call.Fun.(*ast.SelectorExpr); ok {
		if id, ok := sel.X.(*ast.Ident); ok && !isLocal(id.Name) {
			if path, isPkg := g.imports[id.Name]; isPkg {
				name := path + "." + sel.Sel.Name
				switch name {
				case "strings.IndexByte", "strings.LastIndexByte":
					as := c.args(call, env, 2, name)
					s := c.coerce(as[0], gsTString, call.Pos())
					if as[1].ty != gsTByte || len(as[1].binds) > 0 {
						g.fail(call.Args[1].Pos(), "%s: the byte must be a character literal", name)
					}
					fn := "index_byte"
					if sel.Sel.Name == "LastIndexByte" {
						fn = "last_index_byte"
					}
					return gsExpr{binds: s.binds, text: fmt.Sprintf("zidx (%s %s %s)", fn, as[1].text, s.p()), ty: gsTInt, small: true}
				case "strings.TrimSpace":
					s := c.coerce(c.args(call, env, 1, name)[0], gsTString, call.Pos())
					return gsExpr{binds: s.binds, text: "trim_space " + s.p(), ty: gsTString}
				case "strings.Split":
					if len(call.Args) != 2 {
						g.fail(call.Pos(), "%s: 2 arguments expected", name)
					}
					s := c.coerce(c.expr(call.Args[0], env), gsTString, call.Pos())
					sep := c.oneByte(call.Args[1], env, name)
					return gsExpr{binds: s.binds, text: fmt.Sprintf("split_byte %s %s", sep, s.p()), ty: gsTStrList}
				case "strings.Join":
					as := c.args(call, env, 2, name)
					l := c.coerce(as[0], gsTStrList, call.Pos())
					sep := c.coerce(as[1], gsTString, call.Pos())
					return gsExpr{binds: gsAllBinds(l, sep), text: fmt.Sprintf("join_with %s %s", sep.p(), l.p()), ty: gsTString}
				case "strings.HasPrefix":
					as := c.args(call, env, 2, name)
					s := c.coerce(as[0], gsTString, call.Pos())
					p := c.coerce(as[1], gsTString, call.Pos())
					return gsExpr{binds: gsAllBinds(s, p), text: fmt.Sprintf("has_prefix %s %s", p.p(), s.p()), ty: gsTBool}
				case "strings.Cut":
					g.fail(call.Pos(), "strings.Cut outside `a, b, f := strings.Cut(e, sep)` is outside the fragment")
				case "strconv.Atoi":
					g.fail(call.Pos(), "strconv.Atoi outside `x, err = strconv.Atoi(e); if err != nil { return ... }` is outside the fragment")
				}
				g.fail(call.Pos(), "library call %s is not in the primitive table", name)
			}
		}
	}

	// functions and methods of the file
	callee := g.calleeOf(call, isLocal)
	if callee == nil {
		g.fail(call.Pos(), "call %s is outside the fragment (not a function of %s, not in the primitive table)", exprText(call.Fun), gsFile)
	}
	self := callee == c.f
	if !self {
		g.translate(callee, call.Pos())
	}
	var actual []gsExpr
	if callee.decl.Recv != nil {
		sel := call.Fun.(*ast.SelectorExpr)
		actual = append(actual, c.expr(sel.X, env))
	}
	if call.Ellipsis.IsValid() {
		g.fail(call.Pos(), "f(xs...) is outside the fragment")
	}
	for _, a := range call.Args {
		actual = append(actual, c.expr(a, env))
	}
	if len(actual) != len(callee.params) {
		g.fail(call.Pos(), "%s: %d argument(s) for %d parameter(s)", callee.key, len(actual), len(callee.params))
	}
	var binds []gsBind
	name := callee.coq
	if self {
		name += "_rec"
	}
	text := name
	for i, a := range actual {
		a = c.coerce(a, callee.params[i].ty, call.Pos())
		binds = append(binds, a.binds...)
		text += " " + a.p()
	}
	if callee.partial {
		if !c.f.partial {
			g.fail(call.Pos(), "internal: call of the partial %s in a function classified total", callee.key)
		}
		t := c.fresh("t")
		binds = append(binds, gsBind{t, text})
		return gsExpr{binds: binds, text: t, ty: callee.res, atom: true}
	}
	return gsExpr{binds: binds, text: text, ty: callee.res}
}
